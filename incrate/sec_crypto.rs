// E-SEC in-crate driver for C16 (protected traffic decodes only for its intended
// receiver and only if untouched).
//
// Builds a little world of `CryptographicBuiltin` instances WITHOUT network and
// WITHOUT certificates: two senders (A, and an unrelated A2 with the same
// configuration) and seven receivers in fixed roles (see RX_*). Handles are
// registered and crypto tokens are created/exchanged only through the plugin's
// own CryptoKeyFactory / CryptoKeyExchange API, from shared secrets fabricated
// here. Everything handed to the harness is plain data: serialized RTPS messages,
// encoded payloads, crypto token bytes, and `Outcome {Ok(bytes), Rejected(reason)}`.
// No oracle lives here.
//
// The receive side follows the order of operations of `MessageReceiver`:
// Message::read_from_buffer -> (SRTPS_PREFIX first? decode_rtps_message) ->
// SEC_PREFIX / submessage / SEC_POSTFIX state machine -> decode_submessage ->
// approved endpoint list must contain the local endpoint -> for DATA / DATAFRAG
// decode_serialized_payload on the payload bytes exactly as the parser hands
// them on (so RTPS 4-byte padding is in the loop).
use std::{
  collections::BTreeSet,
  sync::{Arc, Mutex, MutexGuard},
};

use bytes::Bytes;
use enumflags2::BitFlags;
use speedy::{Endianness, Writable};

use crate::{
  dds::{ddsdata::DDSData, with_key::datawriter::WriteOptionsBuilder},
  messages::submessages::{
    elements::serialized_payload::SerializedPayload,
    secure_postfix::SecurePostfix,
    secure_prefix::SecurePrefix,
    submessage::{InterpreterSubmessage, ReaderSubmessage, SecuritySubmessage, WriterSubmessage},
    submessage_flag::*,
    submessage_kind::SubmessageKind,
    submessages::*,
  },
  rtps::{Message, MessageBuilder, Submessage, SubmessageBody},
  dds::qos::QosPolicies,
  discovery::{sedp_messages::TopicBuiltinTopicData, SpdpDiscoveredParticipantData},
  messages::submessages::elements::parameter_list::ParameterList,
  security::{
    access_control::*,
    authentication::*,
    cryptographic::{
      cryptographic_plugin::{CryptoKeyExchange, CryptoKeyFactory, CryptoTransform},
      *,
    },
    security_plugins::{SecurityPlugins, SecurityPluginsHandle},
    *,
  },
  structure::{
    cache_change::CacheChange,
    guid::{EntityId, EntityKind, GuidPrefix, GUID},
    sequence_number::{FragmentNumber, SequenceNumber, SequenceNumberSet},
    time::Timestamp,
  },
};

/// intended receiver 1 (always in the receiver list)
pub const RX_B: usize = 0;
/// intended receiver 2 (matched with A like B; in the receiver list only if asked)
pub const RX_C: usize = 1;
/// matched with A, but the tokens it was given carry another master_sender_key under the SAME key ids
pub const RX_K_SENDER_KEY: usize = 2;
/// ... another master_salt under the same key ids
pub const RX_K_SALT: usize = 3;
/// ... another master_receiver_specific_key under the same key ids (differs from a proper receiver only with origin authentication)
pub const RX_K_RECEIVER_KEY: usize = 4;
/// third party: registered A as a remote participant/endpoint but never received any tokens
pub const RX_T_NO_TOKENS: usize = 5;
/// third party holding the key material of a different registration: matched with A2 (same configuration, own keys) and decoding A's traffic with that
pub const RX_T_OTHER_SENDER: usize = 6;
pub const RX_COUNT: usize = 7;

#[derive(Clone, Copy, Debug)]
pub struct Cfg {
  /// dds.sec.crypto.keysize 256 (else 128)
  pub key256: bool,
  /// whole-message level: AES-GCM (encrypt) instead of AES-GMAC (sign)
  pub rtps_encrypt: bool,
  /// submessage level
  pub sub_encrypt: bool,
  /// payload level
  pub payload_encrypt: bool,
  /// receiver-specific MACs at message and submessage level
  pub origin_auth: bool,
  /// the sending endpoint is a DataReader (ACKNACK direction); payload level then does not exist
  pub sender_is_reader: bool,
}

#[derive(Clone, Debug)]
pub enum SubSpec {
  /// DATA through MessageBuilder::data_msg. Without `protect_payload`, `serialized` is the whole
  /// SerializedPayload (>= 4 bytes) and goes in as it is; with it, `serialized` (any length) first
  /// goes through encode_serialized_payload of the sender and the result is what DATA carries.
  /// `via_security_plugins` (with protect_payload; `serialized` >= 4 bytes): the payload is not
  /// encoded by a direct plugin call but by data_msg itself, which is given the sender's
  /// SecurityPlugins object exactly as the Writer gives it.
  Data { serialized: Vec<u8>, sn: i64, big_endian: bool, protect_payload: bool, via_security_plugins: bool },
  /// DATAFRAG through MessageBuilder::data_frag_msg (one fragment holding everything)
  DataFrag { serialized: Vec<u8>, sn: i64, big_endian: bool, protect_payload: bool, via_security_plugins: bool },
  Heartbeat { first: i64, last: i64, count: i32, big_endian: bool, final_flag: bool },
  Gap { before: i64, big_endian: bool },
  AckNack { base: i64, missing: Vec<u32>, count: i32, big_endian: bool },
  InfoTs { ticks: u64, big_endian: bool },
}

#[derive(Clone, Debug)]
pub struct EncodeReq {
  pub subs: Vec<SubSpec>,
  pub protect_submessages: bool,
  pub protect_message: bool,
  /// receiver indices (RX_*) the sender addresses (receiver-specific MACs are made for these)
  pub receivers: Vec<usize>,
}

#[derive(Clone, Debug, Default)]
pub struct Encoded {
  /// the RTPS message as it would be sent
  pub wire: Vec<u8>,
  /// the RTPS message before submessage / message protection (payload protection already applied)
  pub plain_message: Vec<u8>,
  /// for every entity (writer/reader) submessage, in order: [kind, flags] ++ body
  pub units: Vec<Vec<u8>>,
  /// result of encode_serialized_payload for every payload-protected DATA / DATAFRAG, in order
  pub encoded_payloads: Vec<Vec<u8>>,
}

#[derive(Clone, Copy, Debug)]
pub struct DecodeOpts {
  /// the receiver requires whole-message protection (a message not starting with SRTPS_PREFIX is not processed)
  pub message_level: bool,
  /// the receiver requires submessage protection (entity submessages outside SEC_PREFIX/SEC_POSTFIX are not processed)
  pub submessage_level: bool,
  /// decode the payload of delivered DATA / DATAFRAG; the outcome then is the concatenation of the decoded payloads
  pub payload_level: bool,
}

#[derive(Clone, Debug, PartialEq, Eq)]
pub enum Outcome {
  Ok(Vec<u8>),
  Rejected(String),
}

struct Party {
  plugin: Arc<Mutex<CryptographicBuiltin>>,
  prefix: GuidPrefix,
  p_local: u32,
  e_local: u32,
  /// only for sender A when it is a writer: a SecurityPlugins object around the SAME plugin
  /// instance, registered through SecurityPlugins' own calls, so that MessageBuilder::data_msg /
  /// data_frag_msg can be driven with `Some(security_plugins)` as the Writer does
  handle: Option<SecurityPluginsHandle>,
}

impl Party {
  fn pl(&self) -> MutexGuard<'_, CryptographicBuiltin> {
    self.plugin.lock().unwrap()
  }
}

// ---- the plumbing SecurityPlugins needs around the crypto plugin -------------------------------
fn unsupported<T>() -> SecurityResult<T> {
  Err(security_error("verif sec_crypto: authentication / access control are not part of this driver"))
}

/// Authentication stand-in: hands out an identity handle, nothing else (no certificates here).
struct NoAuth;
impl Authentication for NoAuth {
  fn validate_local_identity(&mut self, _domain_id: u16, _qos: &QosPolicies, guid: GUID) -> SecurityResult<(ValidationOutcome, IdentityHandle, GUID)> {
    Ok((ValidationOutcome::Ok, 1, guid))
  }
  fn validate_remote_identity(
    &mut self,
    _t: Option<AuthRequestMessageToken>,
    _l: IdentityHandle,
    _r: IdentityToken,
    _g: GuidPrefix,
  ) -> SecurityResult<(ValidationOutcome, IdentityHandle, Option<AuthRequestMessageToken>)> {
    unsupported()
  }
  fn begin_handshake_request(&mut self, _i: IdentityHandle, _r: IdentityHandle, _d: Vec<u8>) -> SecurityResult<(ValidationOutcome, HandshakeHandle, HandshakeMessageToken)> {
    unsupported()
  }
  fn begin_handshake_reply(&mut self, _m: HandshakeMessageToken, _i: IdentityHandle, _r: IdentityHandle, _d: Vec<u8>) -> SecurityResult<(ValidationOutcome, HandshakeHandle, HandshakeMessageToken)> {
    unsupported()
  }
  fn process_handshake(&mut self, _m: HandshakeMessageToken, _h: HandshakeHandle) -> SecurityResult<(ValidationOutcome, Option<HandshakeMessageToken>)> {
    unsupported()
  }
  fn get_shared_secret(&self, _h: IdentityHandle) -> SecurityResult<SharedSecretHandle> {
    unsupported()
  }
  fn get_authenticated_peer_credential_token(&self, _h: HandshakeHandle) -> SecurityResult<AuthenticatedPeerCredentialToken> {
    unsupported()
  }
  fn get_identity_token(&self, _h: IdentityHandle) -> SecurityResult<IdentityToken> {
    unsupported()
  }
  fn get_identity_status_token(&self, _h: IdentityHandle) -> SecurityResult<IdentityStatusToken> {
    unsupported()
  }
  fn set_permissions_credential_and_token(&mut self, _h: IdentityHandle, _c: PermissionsCredentialToken, _t: PermissionsToken) -> SecurityResult<()> {
    unsupported()
  }
  fn set_listener(&self) -> SecurityResult<()> {
    unsupported()
  }
}

/// Access control stand-in: hands out a permissions handle, nothing else.
struct NoAccess;
impl ParticipantAccessControl for NoAccess {
  fn validate_local_permissions(&mut self, _a: &dyn Authentication, _i: IdentityHandle, _d: u16, _q: &QosPolicies) -> SecurityResult<PermissionsHandle> {
    Ok(1)
  }
  fn validate_remote_permissions(
    &mut self,
    _a: &dyn Authentication,
    _l: IdentityHandle,
    _r: IdentityHandle,
    _t: &PermissionsToken,
    _c: &AuthenticatedPeerCredentialToken,
  ) -> SecurityResult<PermissionsHandle> {
    unsupported()
  }
  fn check_create_participant(&self, _h: PermissionsHandle, _d: u16, _q: &QosPolicies) -> SecurityResult<bool> {
    unsupported()
  }
  fn check_remote_participant(&self, _h: PermissionsHandle, _d: u16, _p: Option<&SpdpDiscoveredParticipantData>) -> SecurityResult<bool> {
    unsupported()
  }
  fn get_permissions_token(&self, _h: PermissionsHandle) -> SecurityResult<PermissionsToken> {
    unsupported()
  }
  fn get_permissions_credential_token(&self, _h: PermissionsHandle) -> SecurityResult<PermissionsCredentialToken> {
    unsupported()
  }
  fn set_listener(&self) -> SecurityResult<()> {
    unsupported()
  }
  fn get_participant_sec_attributes(&self, _h: PermissionsHandle) -> SecurityResult<ParticipantSecurityAttributes> {
    unsupported()
  }
}
impl LocalEntityAccessControl for NoAccess {
  fn check_create_datawriter(&self, _h: PermissionsHandle, _d: u16, _t: String, _q: &QosPolicies) -> SecurityResult<bool> {
    unsupported()
  }
  fn check_create_datareader(&self, _h: PermissionsHandle, _d: u16, _t: String, _q: &QosPolicies) -> SecurityResult<bool> {
    unsupported()
  }
  fn check_create_topic(&self, _h: PermissionsHandle, _d: u16, _t: String, _q: &QosPolicies) -> SecurityResult<bool> {
    unsupported()
  }
  fn get_topic_sec_attributes(&self, _h: PermissionsHandle, _t: &str) -> SecurityResult<TopicSecurityAttributes> {
    unsupported()
  }
  fn get_datawriter_sec_attributes(&self, _h: PermissionsHandle, _t: String) -> SecurityResult<EndpointSecurityAttributes> {
    unsupported()
  }
  fn get_datareader_sec_attributes(&self, _h: PermissionsHandle, _t: String) -> SecurityResult<EndpointSecurityAttributes> {
    unsupported()
  }
}
impl RemoteEntityAccessControl for NoAccess {
  fn check_remote_datawriter(&self, _h: PermissionsHandle, _d: u16, _p: &PublicationBuiltinTopicDataSecure) -> SecurityResult<bool> {
    unsupported()
  }
  fn check_remote_datareader(&self, _h: PermissionsHandle, _d: u16, _s: &SubscriptionBuiltinTopicDataSecure) -> SecurityResult<(bool, bool)> {
    unsupported()
  }
  fn check_remote_topic(&self, _h: PermissionsHandle, _d: u16, _t: &TopicBuiltinTopicData) -> SecurityResult<bool> {
    unsupported()
  }
}
impl AccessControl for NoAccess {}

/// The crypto plugin as SecurityPlugins owns it: every call goes to the shared CryptographicBuiltin;
/// handles returned by register_local_* are noted so that the driver can keep using the plugin directly.
struct SharedCrypto {
  inner: Arc<Mutex<CryptographicBuiltin>>,
  local_handles: Arc<Mutex<Vec<u32>>>,
}
impl SharedCrypto {
  fn c(&self) -> MutexGuard<'_, CryptographicBuiltin> {
    self.inner.lock().unwrap()
  }
}
impl CryptoKeyFactory for SharedCrypto {
  fn register_local_participant(&mut self, i: IdentityHandle, p: PermissionsHandle, props: &[Property], a: ParticipantSecurityAttributes) -> SecurityResult<ParticipantCryptoHandle> {
    let h = self.c().register_local_participant(i, p, props, a)?;
    self.local_handles.lock().unwrap().push(h);
    Ok(h)
  }
  fn register_matched_remote_participant(&mut self, l: ParticipantCryptoHandle, i: IdentityHandle, p: PermissionsHandle, s: SharedSecretHandle) -> SecurityResult<ParticipantCryptoHandle> {
    self.c().register_matched_remote_participant(l, i, p, s)
  }
  fn register_local_datawriter(&mut self, p: ParticipantCryptoHandle, props: &[Property], a: EndpointSecurityAttributes) -> SecurityResult<DatawriterCryptoHandle> {
    let h = self.c().register_local_datawriter(p, props, a)?;
    self.local_handles.lock().unwrap().push(h);
    Ok(h)
  }
  fn register_matched_remote_datareader(&mut self, w: DatawriterCryptoHandle, p: ParticipantCryptoHandle, s: SharedSecretHandle, relay_only: bool) -> SecurityResult<DatareaderCryptoHandle> {
    self.c().register_matched_remote_datareader(w, p, s, relay_only)
  }
  fn register_local_datareader(&mut self, p: ParticipantCryptoHandle, props: &[Property], a: EndpointSecurityAttributes) -> SecurityResult<DatareaderCryptoHandle> {
    let h = self.c().register_local_datareader(p, props, a)?;
    self.local_handles.lock().unwrap().push(h);
    Ok(h)
  }
  fn register_matched_remote_datawriter(&mut self, r: DatareaderCryptoHandle, p: ParticipantCryptoHandle, s: SharedSecretHandle) -> SecurityResult<DatawriterCryptoHandle> {
    self.c().register_matched_remote_datawriter(r, p, s)
  }
  fn unregister_participant(&mut self, h: ParticipantCryptoHandle) -> SecurityResult<()> {
    self.c().unregister_participant(h)
  }
  fn unregister_datawriter(&mut self, h: DatawriterCryptoHandle) -> SecurityResult<()> {
    self.c().unregister_datawriter(h)
  }
  fn unregister_datareader(&mut self, h: DatareaderCryptoHandle) -> SecurityResult<()> {
    self.c().unregister_datareader(h)
  }
}
impl CryptoKeyExchange for SharedCrypto {
  fn create_local_participant_crypto_tokens(&mut self, l: ParticipantCryptoHandle, r: ParticipantCryptoHandle) -> SecurityResult<Vec<ParticipantCryptoToken>> {
    self.c().create_local_participant_crypto_tokens(l, r)
  }
  fn set_remote_participant_crypto_tokens(&mut self, l: ParticipantCryptoHandle, r: ParticipantCryptoHandle, t: Vec<ParticipantCryptoToken>) -> SecurityResult<()> {
    self.c().set_remote_participant_crypto_tokens(l, r, t)
  }
  fn create_local_datawriter_crypto_tokens(&mut self, l: DatawriterCryptoHandle, r: DatareaderCryptoHandle) -> SecurityResult<Vec<DatawriterCryptoToken>> {
    self.c().create_local_datawriter_crypto_tokens(l, r)
  }
  fn set_remote_datawriter_crypto_tokens(&mut self, l: DatareaderCryptoHandle, r: DatawriterCryptoHandle, t: Vec<DatawriterCryptoToken>) -> SecurityResult<()> {
    self.c().set_remote_datawriter_crypto_tokens(l, r, t)
  }
  fn create_local_datareader_crypto_tokens(&mut self, l: DatareaderCryptoHandle, r: DatawriterCryptoHandle) -> SecurityResult<Vec<DatareaderCryptoToken>> {
    self.c().create_local_datareader_crypto_tokens(l, r)
  }
  fn set_remote_datareader_crypto_tokens(&mut self, l: DatawriterCryptoHandle, r: DatareaderCryptoHandle, t: Vec<DatareaderCryptoToken>) -> SecurityResult<()> {
    self.c().set_remote_datareader_crypto_tokens(l, r, t)
  }
  fn return_crypto_tokens(&mut self, t: Vec<CryptoToken>) -> SecurityResult<()> {
    self.c().return_crypto_tokens(t)
  }
}
impl CryptoTransform for SharedCrypto {
  fn encode_serialized_payload(&self, plain: Vec<u8>, w: DatawriterCryptoHandle) -> SecurityResult<(Vec<u8>, ParameterList)> {
    self.c().encode_serialized_payload(plain, w)
  }
  fn encode_datawriter_submessage(&self, s: Submessage, w: DatawriterCryptoHandle, r: Vec<DatareaderCryptoHandle>) -> SecurityResult<EncodedSubmessage> {
    self.c().encode_datawriter_submessage(s, w, r)
  }
  fn encode_datareader_submessage(&self, s: Submessage, r: DatareaderCryptoHandle, w: Vec<DatawriterCryptoHandle>) -> SecurityResult<EncodedSubmessage> {
    self.c().encode_datareader_submessage(s, r, w)
  }
  fn encode_rtps_message(&self, m: Message, s: ParticipantCryptoHandle, r: Vec<ParticipantCryptoHandle>) -> SecurityResult<Message> {
    self.c().encode_rtps_message(m, s, r)
  }
  fn decode_rtps_message(&self, m: Message, r: ParticipantCryptoHandle, s: ParticipantCryptoHandle) -> SecurityResult<DecodeOutcome<Message>> {
    self.c().decode_rtps_message(m, r, s)
  }
  fn decode_submessage(&self, e: (SecurePrefix, Submessage, SecurePostfix), r: ParticipantCryptoHandle, s: ParticipantCryptoHandle) -> SecurityResult<DecodeOutcome<DecodedSubmessage>> {
    self.c().decode_submessage(e, r, s)
  }
  fn decode_serialized_payload(&self, b: Vec<u8>, q: ParameterList, r: DatareaderCryptoHandle, w: DatawriterCryptoHandle) -> SecurityResult<Vec<u8>> {
    self.c().decode_serialized_payload(b, q, r, w)
  }
}
impl Cryptographic for SharedCrypto {}

struct Rx {
  party: Party,
  /// handles this receiver holds for "the sender" (participant, endpoint)
  p_sender: u32,
  e_sender: u32,
  tokens_p: Vec<Vec<u8>>,
  tokens_e: Vec<Vec<u8>>,
  twist_applied: bool,
}

struct Tx {
  party: Party,
  /// per receiver index: (participant handle, endpoint handle) of that receiver at this sender
  remote: Vec<Option<(u32, u32)>>,
}

pub struct CryptoBench {
  cfg: Cfg,
  tx: Vec<Tx>,
  rx: Vec<Rx>,
}

#[derive(Clone, Copy, PartialEq, Eq)]
enum Twist {
  None,
  SenderKey,
  Salt,
  ReceiverKey,
}

fn mix(mut z: u64) -> u64 {
  z = z.wrapping_add(0x9E3779B97F4A7C15);
  z = (z ^ (z >> 30)).wrapping_mul(0xBF58476D1CE4E5B9);
  z = (z ^ (z >> 27)).wrapping_mul(0x94D049BB133111EB);
  z ^ (z >> 31)
}
fn fab32(seed: u64, tag: u64) -> [u8; 32] {
  let mut out = [0u8; 32];
  let mut s = mix(seed ^ tag.rotate_left(17));
  for c in out.chunks_mut(8) {
    s = mix(s);
    c.copy_from_slice(&s.to_le_bytes());
  }
  out
}
fn secret(seed: u64, s: usize, r: usize) -> SharedSecretHandle {
  let t = (s as u64) * 1000 + r as u64;
  SharedSecretHandle {
    shared_secret: SharedSecret::from(fab32(seed, t * 3)),
    challenge1: Challenge::from(fab32(seed, t * 3 + 1)),
    challenge2: Challenge::from(fab32(seed, t * 3 + 2)),
  }
}

fn participant_attrs(c: &Cfg) -> ParticipantSecurityAttributes {
  // DDS Security 1.1 table 60: plugin participant attributes mask
  let mut mask = 0x8000_0000u32;
  if c.rtps_encrypt {
    mask |= 0x01;
  }
  if c.origin_auth {
    mask |= 0x08;
  }
  ParticipantSecurityAttributes {
    allow_unauthenticated_participants: false,
    is_access_protected: true,
    is_rtps_protected: true,
    is_discovery_protected: false,
    is_liveliness_protected: false,
    plugin_participant_attributes: PluginSecurityAttributesMask(mask),
    ac_participant_properties: vec![],
  }
}
fn endpoint_attrs(c: &Cfg) -> EndpointSecurityAttributes {
  // DDS Security 1.1 table 62: plugin endpoint attributes mask
  let mut mask = 0x8000_0000u32;
  if c.sub_encrypt {
    mask |= 0x01;
  }
  if c.payload_encrypt {
    mask |= 0x02;
  }
  if c.origin_auth {
    mask |= 0x04;
  }
  EndpointSecurityAttributes {
    topic_security_attributes: TopicSecurityAttributes::empty(),
    is_submessage_protected: true,
    is_payload_protected: true,
    is_key_protected: false,
    plugin_endpoint_attributes: PluginSecurityAttributesMask(mask),
    ac_endpoint_properties: vec![],
  }
}
fn key_props(c: &Cfg) -> Vec<Property> {
  vec![Property { name: "dds.sec.crypto.keysize".to_string(), value: if c.key256 { "256" } else { "128" }.to_string(), propagate: false }]
}

fn es<T, E: std::fmt::Debug>(r: Result<T, E>, what: &str) -> Result<T, String> {
  r.map_err(|e| format!("{what}: {e:?}"))
}

impl Party {
  fn new(c: &Cfg, is_reader: bool, prefix: GuidPrefix) -> Result<Party, String> {
    let mut plugin = CryptographicBuiltin::new();
    let p_local = es(plugin.register_local_participant(1, 1, &key_props(c), participant_attrs(c)), "register_local_participant")?;
    let e_local = if is_reader {
      es(plugin.register_local_datareader(p_local, &key_props(c), endpoint_attrs(c)), "register_local_datareader")?
    } else {
      es(plugin.register_local_datawriter(p_local, &key_props(c), endpoint_attrs(c)), "register_local_datawriter")?
    };
    Ok(Party { plugin: Arc::new(Mutex::new(plugin)), prefix, p_local, e_local, handle: None })
  }

  /// The same registrations, made through SecurityPlugins (validate_local_identity /
  /// validate_local_permissions answered by stand-ins, register_local_participant,
  /// register_local_writer), so that the object can be handed to MessageBuilder.
  fn new_writer_via_security_plugins(c: &Cfg, prefix: GuidPrefix, writer_eid: EntityId) -> Result<Party, String> {
    let plugin = Arc::new(Mutex::new(CryptographicBuiltin::new()));
    let local_handles = Arc::new(Mutex::new(vec![]));
    let mut sp = SecurityPlugins::new(Box::new(NoAuth), Box::new(NoAccess), Box::new(SharedCrypto { inner: plugin.clone(), local_handles: local_handles.clone() }));
    let qos = QosPolicies::qos_none();
    let pguid = GUID::new(prefix, EntityId::PARTICIPANT);
    es(sp.validate_local_identity(0, &qos, pguid), "SecurityPlugins::validate_local_identity")?;
    es(sp.validate_local_permissions(0, prefix, &qos), "SecurityPlugins::validate_local_permissions")?;
    let props = || Some(crate::dds::qos::policy::Property { value: key_props(c), binary_value: vec![] });
    es(sp.register_local_participant(prefix, props(), participant_attrs(c)), "SecurityPlugins::register_local_participant")?;
    es(sp.register_local_writer(GUID::new(prefix, writer_eid), props(), endpoint_attrs(c)), "SecurityPlugins::register_local_writer")?;
    let h = local_handles.lock().unwrap().clone();
    if h.len() != 2 {
      return Err(format!("expected 2 local registrations through SecurityPlugins, saw {}", h.len()));
    }
    Ok(Party { plugin, prefix, p_local: h[0], e_local: h[1], handle: Some(SecurityPluginsHandle::new(sp)) })
  }
}

fn token_value(t: &CryptoToken) -> Vec<u8> {
  t.data_holder.binary_properties.first().map_or(vec![], |b| b.value.to_vec())
}

/// Offsets (start, len) of master_salt, master_sender_key, master_receiver_specific_key inside the
/// CDR (big-endian) KeyMaterial_AES_GCM_GMAC of DDS Security 1.1 section 9.5.2.1.1.
fn keymat_fields(v: &[u8]) -> Option<[(usize, usize); 3]> {
  let rd = |o: usize| -> Option<usize> { v.get(o..o + 4).map(|b| u32::from_be_bytes([b[0], b[1], b[2], b[3]]) as usize) };
  let mut o = 4; // transformation_kind
  let l1 = rd(o)?;
  let salt = (o + 4, l1);
  o += 4 + l1;
  o = (o + 3) & !3;
  o += 4; // sender_key_id
  let l2 = rd(o)?;
  let key = (o + 4, l2);
  o += 4 + l2;
  o = (o + 3) & !3;
  o += 4; // receiver_specific_key_id
  let l3 = rd(o)?;
  let rkey = (o + 4, l3);
  if rkey.0 + l3 > v.len() {
    return None;
  }
  Some([salt, key, rkey])
}

fn twist_tokens(tokens: Vec<CryptoToken>, tw: Twist, applied: &mut bool) -> Vec<CryptoToken> {
  if tw == Twist::None {
    return tokens;
  }
  tokens
    .into_iter()
    .map(|mut t| {
      if let Some(bp) = t.data_holder.binary_properties.first_mut() {
        let mut v = bp.value.to_vec();
        if let Some(f) = keymat_fields(&v) {
          let (off, len) = match tw {
            Twist::Salt => f[0],
            Twist::SenderKey => f[1],
            Twist::ReceiverKey => f[2],
            Twist::None => (0, 0),
          };
          if len > 0 {
            v[off + len / 2] ^= 0x5a;
            *applied = true;
          }
        }
        bp.value = Bytes::from(v);
      }
      t
    })
    .collect()
}

const WRITER_EID_KEY: [u8; 3] = [0, 0, 1];
const READER_EID_KEY: [u8; 3] = [0, 0, 2];

impl CryptoBench {
  pub fn new(cfg: Cfg, fab_seed: u64) -> Result<CryptoBench, String> {
    let mut tx = vec![];
    for s in 0..2usize {
      let mut p = [0x5a_u8; 12];
      p[0] = 0xA0 + s as u8;
      p[4..12].copy_from_slice(&mix(fab_seed ^ (s as u64)).to_le_bytes());
      let party = if s == 0 && !cfg.sender_is_reader {
        Party::new_writer_via_security_plugins(&cfg, GuidPrefix::new(&p), EntityId::new(WRITER_EID_KEY, EntityKind::WRITER_WITH_KEY_USER_DEFINED))?
      } else {
        Party::new(&cfg, cfg.sender_is_reader, GuidPrefix::new(&p))?
      };
      tx.push(Tx { party, remote: vec![None; RX_COUNT] });
    }
    let mut rx = vec![];
    for r in 0..RX_COUNT {
      let mut p = [0x3c_u8; 12];
      p[0] = 0xB0 + r as u8;
      p[4..12].copy_from_slice(&mix(fab_seed ^ (0x100 + r as u64)).to_le_bytes());
      let party = Party::new(&cfg, !cfg.sender_is_reader, GuidPrefix::new(&p))?;
      let s = if r == RX_T_OTHER_SENDER { 1 } else { 0 };
      let twist = match r {
        RX_K_SENDER_KEY => Twist::SenderKey,
        RX_K_SALT => Twist::Salt,
        RX_K_RECEIVER_KEY => Twist::ReceiverKey,
        _ => Twist::None,
      };
      let deliver = r != RX_T_NO_TOKENS;
      let mut tokens_p = vec![];
      let mut tokens_e = vec![];
      let mut twist_applied = false;
      // ---- sender side (the third party without tokens is unknown to the sender)
      if deliver {
        let sp = &tx[s].party;
        let p_r = es(sp.pl().register_matched_remote_participant(sp.p_local, 2, 2, secret(fab_seed, s, r)), "tx register_matched_remote_participant")?;
        let e_r = if cfg.sender_is_reader {
          es(sp.pl().register_matched_remote_datawriter(sp.e_local, p_r, secret(fab_seed, s, r)), "tx register_matched_remote_datawriter")?
        } else {
          es(sp.pl().register_matched_remote_datareader(sp.e_local, p_r, secret(fab_seed, s, r), false), "tx register_matched_remote_datareader")?
        };
        let tp = es(sp.pl().create_local_participant_crypto_tokens(sp.p_local, p_r), "create_local_participant_crypto_tokens")?;
        let te = if cfg.sender_is_reader {
          es(sp.pl().create_local_datareader_crypto_tokens(sp.e_local, e_r), "create_local_datareader_crypto_tokens")?
        } else {
          es(sp.pl().create_local_datawriter_crypto_tokens(sp.e_local, e_r), "create_local_datawriter_crypto_tokens")?
        };
        tx[s].remote[r] = Some((p_r, e_r));
        let tp = twist_tokens(tp, twist, &mut twist_applied);
        let te = twist_tokens(te, twist, &mut twist_applied);
        tokens_p = tp.iter().map(token_value).collect();
        tokens_e = te.iter().map(token_value).collect();
        // ---- receiver side
        let p_s = es(party.pl().register_matched_remote_participant(party.p_local, 3, 3, secret(fab_seed, s, r)), "rx register_matched_remote_participant")?;
        let e_s = if cfg.sender_is_reader {
          es(party.pl().register_matched_remote_datareader(party.e_local, p_s, secret(fab_seed, s, r), false), "rx register_matched_remote_datareader")?
        } else {
          es(party.pl().register_matched_remote_datawriter(party.e_local, p_s, secret(fab_seed, s, r)), "rx register_matched_remote_datawriter")?
        };
        es(party.pl().set_remote_participant_crypto_tokens(party.p_local, p_s, tp), "set_remote_participant_crypto_tokens")?;
        if cfg.sender_is_reader {
          es(party.pl().set_remote_datareader_crypto_tokens(party.e_local, e_s, te), "set_remote_datareader_crypto_tokens")?;
        } else {
          es(party.pl().set_remote_datawriter_crypto_tokens(party.e_local, e_s, te), "set_remote_datawriter_crypto_tokens")?;
        }
        rx.push(Rx { party, p_sender: p_s, e_sender: e_s, tokens_p, tokens_e, twist_applied });
      } else {
        let p_s = es(party.pl().register_matched_remote_participant(party.p_local, 3, 3, secret(fab_seed, s, r)), "rx register_matched_remote_participant")?;
        let e_s = if cfg.sender_is_reader {
          es(party.pl().register_matched_remote_datareader(party.e_local, p_s, secret(fab_seed, s, r), false), "rx register_matched_remote_datareader")?
        } else {
          es(party.pl().register_matched_remote_datawriter(party.e_local, p_s, secret(fab_seed, s, r)), "rx register_matched_remote_datawriter")?
        };
        rx.push(Rx { party, p_sender: p_s, e_sender: e_s, tokens_p, tokens_e, twist_applied });
      }
    }
    Ok(CryptoBench { cfg, tx, rx })
  }

  pub fn cfg(&self) -> Cfg {
    self.cfg
  }
  pub fn sender_prefix(&self) -> [u8; 12] {
    let mut p = [0u8; 12];
    p.copy_from_slice(self.tx[0].party.prefix.as_ref());
    p
  }
  /// (participant tokens, endpoint tokens) as handed to receiver `rx`: each the CDR bytes of one
  /// KeyMaterial_AES_GCM_GMAC (binary property dds.cryp.keymat)
  pub fn tokens(&self, rx: usize) -> (Vec<Vec<u8>>, Vec<Vec<u8>>) {
    (self.rx[rx].tokens_p.clone(), self.rx[rx].tokens_e.clone())
  }
  /// whether the key-twisting of a K receiver changed anything (there is no receiver-specific key without origin authentication)
  pub fn twist_applied(&self, rx: usize) -> bool {
    self.rx[rx].twist_applied
  }

  fn writer_eid(&self) -> EntityId {
    EntityId::new(WRITER_EID_KEY, EntityKind::WRITER_WITH_KEY_USER_DEFINED)
  }
  fn reader_eid(&self) -> EntityId {
    EntityId::new(READER_EID_KEY, EntityKind::READER_WITH_KEY_USER_DEFINED)
  }

  // ------------------------------------------------------------------ payload, plugin only
  pub fn encode_payload(&self, plain: &[u8]) -> Result<Vec<u8>, String> {
    if self.cfg.sender_is_reader {
      return Err("payload level needs a writer as sender".into());
    }
    let t = &self.tx[0].party;
    let (enc, extra_qos) = es(t.pl().encode_serialized_payload(plain.to_vec(), t.e_local), "encode_serialized_payload")?;
    if !extra_qos.parameters.is_empty() {
      return Err("encode_serialized_payload returned extra inline QoS (not expected from the builtin plugin)".into());
    }
    Ok(enc)
  }

  pub fn decode_payload(&self, rx: usize, encoded: &[u8]) -> Outcome {
    let r = &self.rx[rx];
    match r.party.pl().decode_serialized_payload(encoded.to_vec(), Default::default(), r.party.e_local, r.e_sender) {
      Ok(p) => Outcome::Ok(p),
      Err(e) => Outcome::Rejected(format!("Err: {e:?}")),
    }
  }

  // ------------------------------------------------------------------ building
  fn build_sub(&self, spec: &SubSpec, out: &mut Vec<Submessage>, encoded_payloads: &mut Vec<Vec<u8>>) -> Result<(), String> {
    let t = &self.tx[0].party;
    let en = |be: bool| if be { Endianness::BigEndian } else { Endianness::LittleEndian };
    let wguid = GUID::new(t.prefix, self.writer_eid());
    match spec {
      SubSpec::Data { serialized, sn, big_endian, protect_payload, via_security_plugins } | SubSpec::DataFrag { serialized, sn, big_endian, protect_payload, via_security_plugins } => {
        let is_data = matches!(spec, SubSpec::Data { .. });
        let real_path = *protect_payload && *via_security_plugins;
        if real_path && (serialized.len() < 4 || t.handle.is_none()) {
          return Err("generator: the SecurityPlugins path needs a SerializedPayload of >= 4 bytes and a writer as sender".into());
        }
        // what the CacheChange holds: the plaintext on the SecurityPlugins path, else what DATA shall carry
        let held = if *protect_payload && !real_path {
          let e = self.encode_payload(serialized)?;
          encoded_payloads.push(e.clone());
          e
        } else {
          serialized.clone()
        };
        let sp = es(SerializedPayload::from_bytes(&Bytes::from(held.clone())), "SerializedPayload::from_bytes")?;
        let dd = DDSData::new(sp);
        let cc = CacheChange::new(wguid, SequenceNumber::new(*sn), WriteOptionsBuilder::new().build(), dd);
        let plugins = if real_path { t.handle.as_ref() } else { None };
        let b = if is_data {
          MessageBuilder::new().data_msg(&cc, self.reader_eid(), wguid, en(*big_endian), plugins)
        } else {
          if held.len() > 0xffff || held.is_empty() {
            return Err("generator: the DATAFRAG driver carries everything in one fragment (1..=65535 bytes)".into());
          }
          MessageBuilder::new().data_frag_msg(&cc, self.reader_eid(), wguid, FragmentNumber::new(1), held.len() as u16, held.len() as u32, en(*big_endian), plugins)
        };
        let subs = b.add_header_and_build(t.prefix).submessages;
        if subs.len() != 1 {
          return Err("MessageBuilder produced no DATA / DATAFRAG (payload encoding failed inside the builder)".into());
        }
        if real_path {
          match &subs[0].body {
            SubmessageBody::Writer(WriterSubmessage::Data(d, _)) => encoded_payloads.push(d.serialized_payload.as_ref().map_or(vec![], |b| b.to_vec())),
            SubmessageBody::Writer(WriterSubmessage::DataFrag(d, _)) => encoded_payloads.push(d.serialized_payload.to_vec()),
            _ => {}
          }
        }
        out.extend(subs);
      }
      SubSpec::Heartbeat { first, last, count, big_endian, final_flag } => {
        let b = MessageBuilder::new().heartbeat_msg(self.writer_eid(), SequenceNumber::new(*first), SequenceNumber::new(*last), *count, en(*big_endian), self.reader_eid(), *final_flag, false);
        out.extend(b.add_header_and_build(t.prefix).submessages);
      }
      SubSpec::Gap { before, big_endian } => {
        let b = MessageBuilder::new().gap_msg_before(SequenceNumber::new(*before), self.writer_eid(), en(*big_endian), GUID::new(self.rx[0].party.prefix, self.reader_eid()));
        out.extend(b.add_header_and_build(t.prefix).submessages);
      }
      SubSpec::AckNack { base, missing, count, big_endian } => {
        let set: BTreeSet<SequenceNumber> = missing.iter().filter(|m| **m < 256).map(|m| SequenceNumber::new(*base + *m as i64)).collect();
        let a = AckNack { reader_id: self.reader_eid(), writer_id: self.writer_eid(), reader_sn_state: SequenceNumberSet::from_base_and_set(SequenceNumber::new(*base), &set), count: *count };
        out.push(a.create_submessage(BitFlags::<ACKNACK_Flags>::from_endianness(en(*big_endian))));
      }
      SubSpec::InfoTs { ticks, big_endian } => {
        let b = MessageBuilder::new().ts_msg(en(*big_endian), Some(Timestamp::from_ticks(*ticks)));
        out.extend(b.add_header_and_build(t.prefix).submessages);
      }
    }
    Ok(())
  }

  fn unit_of(kind: SubmessageKind, flags: u8, body: Vec<u8>) -> Vec<u8> {
    let mut v = Vec::with_capacity(2 + body.len());
    v.push(u8::from(kind));
    v.push(flags);
    v.extend(body);
    v
  }
  fn unit_of_submessage(sm: &Submessage) -> Result<Vec<u8>, String> {
    let body = es(sm.body.write_to_vec_with_ctx(endianness_flag(sm.header.flags)), "serialise submessage body")?;
    Ok(Self::unit_of(sm.header.kind, sm.header.flags, body))
  }
  fn unit_of_writer(ws: &WriterSubmessage) -> Result<Vec<u8>, String> {
    let (kind, flags) = match ws {
      WriterSubmessage::Data(_, f) => (SubmessageKind::DATA, f.bits()),
      WriterSubmessage::DataFrag(_, f) => (SubmessageKind::DATA_FRAG, f.bits()),
      WriterSubmessage::Gap(_, f) => (SubmessageKind::GAP, f.bits()),
      WriterSubmessage::Heartbeat(_, f) => (SubmessageKind::HEARTBEAT, f.bits()),
      WriterSubmessage::HeartbeatFrag(_, f) => (SubmessageKind::HEARTBEAT_FRAG, f.bits()),
    };
    let body = es(ws.write_to_vec_with_ctx(endianness_flag(flags)), "serialise decoded writer submessage")?;
    Ok(Self::unit_of(kind, flags, body))
  }
  fn unit_of_reader(rs: &ReaderSubmessage) -> Result<Vec<u8>, String> {
    let (kind, flags) = match rs {
      ReaderSubmessage::AckNack(_, f) => (SubmessageKind::ACKNACK, f.bits()),
      ReaderSubmessage::NackFrag(_, f) => (SubmessageKind::NACK_FRAG, f.bits()),
    };
    let body = es(rs.write_to_vec_with_ctx(endianness_flag(flags)), "serialise decoded reader submessage")?;
    Ok(Self::unit_of(kind, flags, body))
  }

  /// Sender A builds the submessages, applies payload / submessage / message protection as asked, and serialises.
  pub fn encode(&self, req: &EncodeReq) -> Result<Encoded, String> {
    let t = &self.tx[0];
    let mut enc = Encoded::default();
    let mut plain_subs: Vec<Submessage> = vec![];
    for s in &req.subs {
      self.build_sub(s, &mut plain_subs, &mut enc.encoded_payloads)?;
    }
    let mut handles_p = vec![];
    let mut handles_e = vec![];
    for r in &req.receivers {
      let (p, e) = t.remote.get(*r).copied().flatten().ok_or_else(|| format!("receiver {r} is not matched with the sender"))?;
      handles_p.push(p);
      handles_e.push(e);
    }
    let mut plain_msg = MessageBuilder::new().add_header_and_build(t.party.prefix);
    plain_msg.submessages = plain_subs.clone();
    enc.plain_message = es(plain_msg.write_to_vec_with_ctx(Endianness::LittleEndian), "serialise plain message")?;
    for sm in &plain_subs {
      if matches!(sm.body, SubmessageBody::Writer(_) | SubmessageBody::Reader(_)) {
        // the generator must produce canonical headers, or byte comparison after decoding would be meaningless
        let body_len = es(sm.body.write_to_vec_with_ctx(endianness_flag(sm.header.flags)), "serialise")?.len();
        if body_len != sm.header.content_length as usize {
          return Err(format!("generator: content_length {} differs from the body length {} (submessage too long for RTPS?)", sm.header.content_length, body_len));
        }
        enc.units.push(Self::unit_of_submessage(sm)?);
      }
    }
    // ---- submessage protection (interpreter submessages stay as they are, as in SecurityPlugins)
    let mut level1: Vec<Submessage> = vec![];
    for sm in plain_subs {
      let is_entity = matches!(sm.body, SubmessageBody::Writer(_) | SubmessageBody::Reader(_));
      if req.protect_submessages && is_entity {
        let is_reader_sub = matches!(sm.body, SubmessageBody::Reader(_));
        if is_reader_sub != self.cfg.sender_is_reader {
          return Err("submessage kind does not fit the sending endpoint".into());
        }
        let r = if is_reader_sub {
          t.party.pl().encode_datareader_submessage(sm, t.party.e_local, handles_e.clone())
        } else {
          t.party.pl().encode_datawriter_submessage(sm, t.party.e_local, handles_e.clone())
        };
        match es(r, "encode_submessage")? {
          EncodedSubmessage::Encoded(a, b, c) => level1.extend([a, b, c]),
          EncodedSubmessage::Unencoded(_) => return Err("plugin returned the submessage unencoded although submessage protection is configured".into()),
        }
      } else {
        level1.push(sm);
      }
    }
    let mut msg = MessageBuilder::new().add_header_and_build(t.party.prefix);
    msg.submessages = level1;
    // ---- message protection
    if req.protect_message {
      msg = es(t.party.pl().encode_rtps_message(msg, t.party.p_local, handles_p), "encode_rtps_message")?;
    }
    enc.wire = es(msg.write_to_vec_with_ctx(Endianness::LittleEndian), "serialise wire message")?;
    Ok(enc)
  }

  // ------------------------------------------------------------------ receiving
  /// Receiver `rx` processes `wire` in the order MessageReceiver does. See DecodeOpts for what the
  /// Ok bytes are: payload_level -> decoded payloads concatenated; else submessage_level ->
  /// [kind, flags] ++ body of every delivered entity submessage; else the decoded message, serialised.
  pub fn decode(&self, rx: usize, wire: &[u8], opts: DecodeOpts) -> Outcome {
    match self.decode_inner(rx, wire, opts) {
      Ok(v) => Outcome::Ok(v),
      Err(e) => Outcome::Rejected(e),
    }
  }

  fn decode_inner(&self, rx: usize, wire: &[u8], opts: DecodeOpts) -> Result<Vec<u8>, String> {
    let r = &self.rx[rx];
    let pl = r.party.pl();
    let msg = Message::read_from_buffer(&Bytes::copy_from_slice(wire)).map_err(|e| format!("parse: {e}"))?;
    // SecurityPlugins looks the sender's crypto handles up by the GUID prefix of the RTPS header
    if msg.header.guid_prefix != self.tx[0].party.prefix {
      return Err("ParticipantCryptoHandleNotFound (unknown source GUID prefix)".into());
    }
    let starts_with_srtps = matches!(msg.submessages.first(), Some(Submessage { body: SubmessageBody::Security(SecuritySubmessage::SecureRTPSPrefix(..)), .. }));
    let msg = if starts_with_srtps {
      match pl.decode_rtps_message(msg, r.party.p_local, r.p_sender) {
        Ok(DecodeOutcome::Success(m)) => m,
        Ok(DecodeOutcome::KeysNotFound(k)) => return Err(format!("message: KeysNotFound {k}")),
        Ok(DecodeOutcome::ValidatingReceiverSpecificMACFailed) => return Err("message: ValidatingReceiverSpecificMACFailed".into()),
        Ok(DecodeOutcome::ParticipantCryptoHandleNotFound(_)) => return Err("message: ParticipantCryptoHandleNotFound".into()),
        Err(e) => return Err(format!("message: Err: {e:?}")),
      }
    } else if opts.message_level {
      return Err("message does not start with SRTPS_PREFIX although whole-message protection is required".into());
    } else {
      msg
    };
    if !opts.submessage_level && !opts.payload_level {
      return msg.write_to_vec_with_ctx(Endianness::LittleEndian).map_err(|e| format!("harness: reserialise {e:?}"));
    }

    enum St {
      Prefix(SecurePrefix),
      Sub(SecurePrefix, Submessage),
    }
    let mut state: Option<St> = None;
    let mut delivered_w: Vec<WriterSubmessage> = vec![];
    let mut units: Vec<u8> = vec![];
    let mut n_delivered = 0;
    for sm in msg.submessages {
      match state.take() {
        None => match sm.body {
          SubmessageBody::Interpreter(_) => {}
          SubmessageBody::Writer(ws) => {
            if opts.submessage_level {
              return Err("entity submessage outside SEC_PREFIX/SEC_POSTFIX although submessage protection is required".into());
            }
            units.extend(Self::unit_of_writer(&ws)?);
            delivered_w.push(ws);
            n_delivered += 1;
          }
          SubmessageBody::Reader(rs) => {
            if opts.submessage_level {
              return Err("entity submessage outside SEC_PREFIX/SEC_POSTFIX although submessage protection is required".into());
            }
            units.extend(Self::unit_of_reader(&rs)?);
            n_delivered += 1;
          }
          SubmessageBody::Security(SecuritySubmessage::SecurePrefix(p, _)) => state = Some(St::Prefix(p)),
          SubmessageBody::Security(_) => return Err("security submessage out of sequence".into()),
        },
        Some(St::Prefix(p)) => state = Some(St::Sub(p, sm)),
        Some(St::Sub(p, inner)) => match sm.body {
          SubmessageBody::Security(SecuritySubmessage::SecurePostfix(post, _)) => {
            let post: SecurePostfix = post;
            match pl.decode_submessage((p, inner, post), r.party.p_local, r.p_sender) {
              Ok(DecodeOutcome::Success(DecodedSubmessage::Writer(ws, approved))) => {
                if !approved.contains(&r.party.e_local) {
                  return Err("submessage: approved endpoint list lacks the local endpoint".into());
                }
                units.extend(Self::unit_of_writer(&ws)?);
                delivered_w.push(ws);
                n_delivered += 1;
              }
              Ok(DecodeOutcome::Success(DecodedSubmessage::Reader(rs, approved))) => {
                if !approved.contains(&r.party.e_local) {
                  return Err("submessage: approved endpoint list lacks the local endpoint".into());
                }
                units.extend(Self::unit_of_reader(&rs)?);
                n_delivered += 1;
              }
              Ok(DecodeOutcome::Success(DecodedSubmessage::Interpreter(_))) => {}
              Ok(DecodeOutcome::KeysNotFound(k)) => return Err(format!("submessage: KeysNotFound {k}")),
              Ok(DecodeOutcome::ValidatingReceiverSpecificMACFailed) => return Err("submessage: ValidatingReceiverSpecificMACFailed".into()),
              Ok(DecodeOutcome::ParticipantCryptoHandleNotFound(_)) => return Err("submessage: ParticipantCryptoHandleNotFound".into()),
              Err(e) => return Err(format!("submessage: Err: {e:?}")),
            }
          }
          _ => return Err("expected SEC_POSTFIX after SEC_PREFIX and one submessage".into()),
        },
      }
    }
    if state.is_some() {
      return Err("incomplete SEC_PREFIX / submessage / SEC_POSTFIX sequence".into());
    }
    if n_delivered == 0 {
      return Err("no entity submessage delivered".into());
    }
    if !opts.payload_level {
      return Ok(units);
    }
    // ---- payload level: what decode_and_handle_data / decode_and_handle_datafrag do
    let mut out = vec![];
    let mut n_payloads = 0;
    for ws in delivered_w {
      let (writer_id, inline_qos, payload, frag_limit) = match ws {
        WriterSubmessage::Data(d, _) => match d.serialized_payload {
          Some(p) => (d.writer_id, d.inline_qos, p, None),
          None => continue,
        },
        WriterSubmessage::DataFrag(d, _) => (d.writer_id, d.inline_qos, d.serialized_payload, Some((d.fragments_in_submessage as usize) * (d.fragment_size as usize))),
        _ => continue,
      };
      // the remote endpoint crypto handle is looked up by (local reader GUID, source writer GUID)
      if writer_id != self.writer_eid() {
        return Err("payload: no crypto handle for this source writer".into());
      }
      let dec = pl
        .decode_serialized_payload(Vec::from(payload), inline_qos.unwrap_or_default(), r.party.e_local, r.e_sender)
        .map_err(|e| format!("payload: Err: {e:?}"))?;
      if let Some(limit) = frag_limit {
        if dec.len() > limit {
          return Err("payload: Invalid DataFrag (decoded length exceeds fragments_in_submessage x fragment_size)".into());
        }
      }
      out.extend(dec);
      n_payloads += 1;
    }
    if n_payloads == 0 {
      return Err("no payload delivered".into());
    }
    Ok(out)
  }
}
