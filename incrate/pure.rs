// Socket-free receive path for the interpreters (Miri cannot open sockets, so Reader/Writer,
// which own a UDPSender, are out of its reach): the real parser and the real per-writer
// bookkeeping components, driven the way Reader::handle_*_msg drives them.
//   datagram -> Message::read_from_buffer
//   DATA       -> SerializedPayload + CDR deserialisation of the sample type, proxy.received_changes_add
//   DATAFRAG   -> FragmentAssembler::new_datafrag (-> completed sample as above)
//   HEARTBEAT  -> RtpsWriterProxy::irrelevant_changes_up_to + missing_seqnums
//   GAP        -> irrelevant_changes_range + set_irrelevant_change over the set's iterator
//   ACKNACK / NACKFRAG -> the number-set iterators (forward and backward)
use bytes::Bytes;

use crate::{
  dds::ddsdata::DDSData,
  messages::submessages::{
    elements::serialized_payload::SerializedPayload,
    submessages::{ReaderSubmessage, WriterSubmessage, DATAFRAG_Flags},
  },
  rtps::{fragment_assembler::FragmentAssembler, rtps_writer_proxy::RtpsWriterProxy, Message, SubmessageBody},
  structure::{
    guid::{EntityId, GUID},
    sequence_number::SequenceNumber,
    time::Timestamp,
  },
  verif::types::VSample,
};

pub struct PureBench {
  asm: FragmentAssembler,
  wp: RtpsWriterProxy,
  pub parsed: u64,
  pub rejected: u64,
  pub submessages: u64,
  pub samples_decoded: u64,
  pub samples_undecodable: u64,
  pub frags_completed: u64,
  pub missing_listed: u64,
  pub set_members_iterated: u64,
}

fn decode_sp(sp: &SerializedPayload) -> bool {
  use crate::{dds::adapters::no_key::DeserializerAdapter, serialization::CDRDeserializerAdapter};
  <CDRDeserializerAdapter<VSample> as DeserializerAdapter<VSample>>::from_bytes(&sp.value, sp.representation_identifier).is_ok()
}
fn decode(payload: &Bytes) -> bool {
  match SerializedPayload::from_bytes(payload) {
    Ok(sp) => decode_sp(&sp),
    Err(_) => false,
  }
}

impl PureBench {
  pub fn new(fragment_size: u16) -> PureBench {
    PureBench {
      asm: FragmentAssembler::new(fragment_size),
      wp: RtpsWriterProxy::new(GUID::dummy_test_guid(crate::structure::guid::EntityKind::WRITER_WITH_KEY_USER_DEFINED), vec![], vec![], EntityId::UNKNOWN),
      parsed: 0,
      rejected: 0,
      submessages: 0,
      samples_decoded: 0,
      samples_undecodable: 0,
      frags_completed: 0,
      missing_listed: 0,
      set_members_iterated: 0,
    }
  }

  fn sample(&mut self, payload: &Bytes) {
    if decode(payload) {
      self.samples_decoded += 1;
    } else {
      self.samples_undecodable += 1;
    }
  }

  pub fn feed(&mut self, datagram: &[u8]) {
    let msg = match Message::read_from_buffer(&Bytes::copy_from_slice(datagram)) {
      Ok(m) => m,
      Err(_) => {
        self.rejected += 1;
        return;
      }
    };
    self.parsed += 1;
    for sub in msg.submessages {
      self.submessages += 1;
      match sub.body {
        SubmessageBody::Writer(WriterSubmessage::Data(d, _)) => {
          if d.writer_sn > SequenceNumber::zero() && !self.wp.should_ignore_change(d.writer_sn) {
            self.wp.received_changes_add(d.writer_sn, Timestamp::now());
          }
          if let Some(p) = &d.serialized_payload {
            self.sample(p);
          }
        }
        SubmessageBody::Writer(WriterSubmessage::DataFrag(df, flags)) => {
          let flags: enumflags2::BitFlags<DATAFRAG_Flags> = flags;
          if let Some(DDSData::Data { serialized_payload }) = self.asm.new_datafrag(&df, flags) {
            self.frags_completed += 1;
            if decode_sp(&serialized_payload) {
              self.samples_decoded += 1;
            } else {
              self.samples_undecodable += 1;
            }
          }
        }
        SubmessageBody::Writer(WriterSubmessage::Heartbeat(hb, _)) => {
          if hb.first_sn > SequenceNumber::zero() && hb.last_sn >= SequenceNumber::zero() {
            self.wp.irrelevant_changes_up_to(hb.first_sn);
            let m = self.wp.missing_seqnums(hb.first_sn, hb.last_sn);
            assert!(m.len() <= 256 + 32, "missing list of {} numbers", m.len());
            self.missing_listed += m.len() as u64;
          }
        }
        SubmessageBody::Writer(WriterSubmessage::Gap(g, _)) => {
          if g.gap_start > SequenceNumber::zero() && g.gap_list.base() > SequenceNumber::zero() && g.gap_start <= g.gap_list.base() {
            self.wp.irrelevant_changes_range(g.gap_start, g.gap_list.base());
            for sn in g.gap_list.iter() {
              self.wp.set_irrelevant_change(sn);
              self.set_members_iterated += 1;
            }
            let _ = self.wp.all_ackable_before();
          }
        }
        SubmessageBody::Reader(ReaderSubmessage::AckNack(a, _)) => {
          self.set_members_iterated += a.reader_sn_state.iter().count() as u64;
          self.set_members_iterated += a.reader_sn_state.iter().rev().count() as u64;
        }
        SubmessageBody::Reader(ReaderSubmessage::NackFrag(n, _)) => {
          self.set_members_iterated += n.fragment_number_state.iter().count() as u64;
          self.set_members_iterated += n.fragment_number_state.iter().rev().count() as u64;
        }
        _ => {}
      }
    }
  }
}
