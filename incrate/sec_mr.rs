// E-SEC in-crate driver for C17 (required protection cannot be bypassed by sending plaintext).
//
// A hand-built `MessageReceiver` that is given a real `SecurityPluginsHandle`, five hand-built
// `Reader`s behind it (each wired to a real DataReader as rbench does) and the acknack channel.
// Observation: the readers' TopicCaches, DataReader::take, the acknack channel. There is no Writer
// object: MessageReceiver's part of the reader-submessage path ends at the acknack channel; the
// local writers exist as crypto registrations (which is all the gating looks at).
// The plugins are configured the way DomainParticipantBuilder / Subscriber / Publisher /
// SecureDiscovery configure them, minus certificates and network:
//   * access control: the real AccessControlBuiltin, state built from the UNSIGNED governance XML
//     the harness generated (C18 hook: parse_docs -> decider -> into_parts). Only the two
//     validate_*_permissions entry points (signature checking, C18's subject) are answered by a
//     stand-in that hands out the prebuilt handle; every get_*_sec_attributes call is the real one.
//   * authentication: stand-in (identity handles, a fabricated shared secret).
//   * cryptography: the real CryptographicBuiltin, reached only through SecurityPlugins' own
//     register_* / create_*_tokens / set_*_tokens / encode_* calls.
// Parties: L (owns the MessageReceiver), two genuine remote peers P and P2 (each matched with L,
// tokens exchanged both ways) and two imposters that never gave L any tokens: X1 claims P's GUID
// prefix but has its own keys, X2 is an unregistered participant. Entity ids are only unique within
// a participant: P2's writer on the unprotected topic has the entity id of P's writer on the
// protected topic and vice versa (likewise their readers), so that MessageReceiver's fan-out for
// reader id ENTITYID_UNKNOWN (which looks at the writer's entity id only) always has a protected
// and an unprotected candidate; which of L's two user readers sorts first is chosen per case. "protect_*" lets the harness ask one
// of them to protect a plaintext payload / submessage / message for L.
// Everything in the API is plain data; no oracle lives here.
use std::{
  net::SocketAddr,
  rc::Rc,
  sync::{Arc, Mutex},
};

use bytes::Bytes;
use mio_extras::channel as mio_channel;
use speedy::{Endianness, Writable};

use crate::{
  dds::{
    qos::{policy, HasQoSPolicy, QosPolicies, QosPolicyBuilder},
    readcondition::ReadCondition,
    statusevents::{sync_status_channel, DataReaderStatus, DomainParticipantStatusEvent, StatusChannelReceiver},
    topic::{Topic, TopicDescription, TopicKind},
    typedesc::TypeDesc,
    with_key::{self, datasample::Sample, simpledatareader::ReaderCommand},
  },
  discovery::{discovery::DiscoveryCommand, sedp_messages::TopicBuiltinTopicData, SpdpDiscoveredParticipantData},
  messages::submessages::submessages::AckSubmessage,
  mio_source,
  network::udp_sender::UDPSender,
  rtps::{
    constant::builtin_topic_names,
    message_receiver::MessageReceiver,
    reader::{Reader, ReaderIngredients},
    rtps_writer_proxy::RtpsWriterProxy,
    Message, Submessage,
  },
  security::{
    access_control::*,
    authentication::*,
    cryptographic::EncodedSubmessage,
    security_plugins::{SecurityPlugins, SecurityPluginsHandle},
    AccessControlBuiltin, CryptographicBuiltin, *,
  },
  serialization::CDRDeserializerAdapter,
  structure::{
    dds_cache::DDSCache,
    entity::RTPSEntity,
    guid::{EntityId, EntityKind, GuidPrefix, GUID},
    locator::Locator,
  },
  verif::{
    net,
    types::{env, VSample},
  },
};

/// endpoint slots; slot i of every table below belongs to the same topic
pub const EP_PROT: usize = 0; // user topic "vt_prot" (governance rule chosen by the harness)
pub const EP_OPEN: usize = 1; // user topic "vt_open" (metadata NONE, data NONE)
pub const EP_SPDP: usize = 2; // DCPSParticipant
pub const EP_STATELESS: usize = 3; // DCPSParticipantStatelessMessage
pub const EP_VOLATILE: usize = 4; // DCPSParticipantVolatileMessageSecure
pub const EP_COUNT: usize = 5;

pub const TOPIC_NAMES: [&str; EP_COUNT] = [
  "vt_prot",
  "vt_open",
  builtin_topic_names::DCPS_PARTICIPANT,
  builtin_topic_names::DCPS_PARTICIPANT_STATELESS_MESSAGE,
  builtin_topic_names::DCPS_PARTICIPANT_VOLATILE_MESSAGE_SECURE,
];

#[derive(Clone, Debug)]
pub struct MrCfg {
  pub governance_xml: String,
  pub permissions_xml: String,
  pub subject_name: String,
  pub domain_id: u16,
  /// seed of the fabricated shared secrets
  pub fab_seed: u64,
  /// entity id order of L's two user readers (MessageReceiver keeps its readers in a BTreeMap by
  /// entity id): the reader of the protected topic sorts before the reader of the unprotected one
  pub prot_reader_first: bool,
}

#[derive(Clone, Copy, Debug, PartialEq, Eq)]
pub enum Who {
  /// the genuine remote peer (matched with L, tokens exchanged)
  Peer,
  /// a second genuine remote peer, whose user endpoints have the entity ids of the first peer's
  /// endpoints on the other topic
  Peer2,
  /// claims the peer's GUID prefix, own key material, L never received its tokens
  ImposterSamePrefix,
  /// a participant L has never registered
  ImposterOtherPrefix,
}

#[derive(Clone, Debug)]
pub struct Ids {
  pub local_prefix: [u8; 12],
  /// prefixes of the genuine peers P, P2
  pub peer_prefix: [[u8; 12]; 2],
  pub other_prefix: [u8; 12],
  /// L's readers / writers by slot
  pub local_readers: [[u8; 4]; EP_COUNT],
  pub local_writers: [[u8; 4]; EP_COUNT],
  /// writers / readers of P (also used by X1, X2) and of P2, by slot
  pub remote_writers: [[[u8; 4]; EP_COUNT]; 2],
  pub remote_readers: [[[u8; 4]; EP_COUNT]; 2],
}

/// What L's SecurityPlugins answer after configuration (observation, for the evidence samples).
#[derive(Clone, Debug)]
pub struct Answers {
  pub rtps_not_protected: bool,
  pub reader_submessage_not_protected: [bool; EP_COUNT],
  pub reader_payload_not_protected: [bool; EP_COUNT],
  pub writer_submessage_not_protected: [bool; EP_COUNT],
}

#[derive(Clone, Debug, PartialEq, Eq)]
pub struct AckSeen {
  pub nackfrag: bool,
  pub source_prefix: [u8; 12],
  pub reader_id: [u8; 4],
  pub writer_id: [u8; 4],
  pub count: i32,
}

/// One change found in a reader's TopicCache.
#[derive(Clone, Debug, PartialEq, Eq)]
pub struct InCache {
  pub writer: [u8; 16],
  pub sn: i64,
  /// DATA sample (else a dispose)
  pub is_data: bool,
  /// the serialized payload as the Reader stored it (encapsulation header + body); empty for a
  /// dispose by key hash
  pub payload: Vec<u8>,
}

#[derive(Clone, Debug, Default)]
pub struct Reached {
  /// per reader slot: every change the Reader put into its TopicCache
  pub cache: Vec<Vec<InCache>>,
  /// per reader slot: VSample.id of every sample DataReader::take handed over afterwards, or the
  /// error take returned (e.g. a payload that does not deserialize)
  pub taken: Vec<Result<Vec<u32>, String>>,
  /// per reader slot: keys of dispose notifications handed over
  pub disposes: Vec<Vec<u32>>,
  /// ACKNACK / NACKFRAG submessages that arrived on the acknack channel
  pub acks: Vec<AckSeen>,
  /// participant prefixes announced on the SPDP liveness channel
  pub spdp_liveness: usize,
}

// ---- stand-ins around the real plugins -------------------------------------------------------

fn unsupported<T>() -> SecurityResult<T> {
  Err(security_error("verif sec_mr: not part of this driver"))
}

fn mix(mut z: u64) -> u64 {
  z = z.wrapping_add(0x9E3779B97F4A7C15);
  z = (z ^ (z >> 30)).wrapping_mul(0xBF58476D1CE4E5B9);
  z = (z ^ (z >> 27)).wrapping_mul(0x94D049BB133111EB);
  z ^ (z >> 31)
}
fn fab32(seed: u64, tag: u64) -> [u8; 32] {
  let mut out = [0u8; 32];
  let mut s = mix(seed ^ tag.rotate_left(17));
  for c in out.chunks_mut(8) {
    s = mix(s);
    c.copy_from_slice(&s.to_le_bytes());
  }
  out
}

/// Authentication stand-in: identity handles and the shared secret a handshake would have left.
struct FabAuth {
  secret_seed: u64,
  own: [u8; 12],
  next: u32,
  /// identity handle -> prefix of that remote participant
  remotes: Vec<(IdentityHandle, [u8; 12])>,
}
impl Authentication for FabAuth {
  fn validate_local_identity(&mut self, _domain_id: u16, _qos: &QosPolicies, guid: GUID) -> SecurityResult<(ValidationOutcome, IdentityHandle, GUID)> {
    Ok((ValidationOutcome::Ok, 1, guid))
  }
  fn validate_remote_identity(
    &mut self,
    _t: Option<AuthRequestMessageToken>,
    _l: IdentityHandle,
    _r: IdentityToken,
    g: GuidPrefix,
  ) -> SecurityResult<(ValidationOutcome, IdentityHandle, Option<AuthRequestMessageToken>)> {
    self.next += 1;
    self.remotes.push((self.next, arr12(g)));
    Ok((ValidationOutcome::Ok, self.next, None))
  }
  fn begin_handshake_request(&mut self, _i: IdentityHandle, _r: IdentityHandle, _d: Vec<u8>) -> SecurityResult<(ValidationOutcome, HandshakeHandle, HandshakeMessageToken)> {
    unsupported()
  }
  fn begin_handshake_reply(&mut self, _m: HandshakeMessageToken, _i: IdentityHandle, _r: IdentityHandle, _d: Vec<u8>) -> SecurityResult<(ValidationOutcome, HandshakeHandle, HandshakeMessageToken)> {
    unsupported()
  }
  fn process_handshake(&mut self, _m: HandshakeMessageToken, _h: HandshakeHandle) -> SecurityResult<(ValidationOutcome, Option<HandshakeMessageToken>)> {
    unsupported()
  }
  fn get_shared_secret(&self, h: IdentityHandle) -> SecurityResult<SharedSecretHandle> {
    // one secret per pair of participants (both ends compute the same), as a handshake leaves it
    let remote = self.remotes.iter().find(|(x, _)| *x == h).map(|(_, p)| *p).ok_or_else(|| security_error("verif sec_mr: unknown identity handle"))?;
    let (a, b) = if self.own <= remote { (self.own, remote) } else { (remote, self.own) };
    let mut pair = 0xcbf29ce484222325u64;
    for x in a.iter().chain(b.iter()) {
      pair = (pair ^ *x as u64).wrapping_mul(0x100000001b3);
    }
    let seed = self.secret_seed ^ pair;
    Ok(SharedSecretHandle {
      shared_secret: SharedSecret::from(fab32(seed, 1)),
      challenge1: Challenge::from(fab32(seed, 2)),
      challenge2: Challenge::from(fab32(seed, 3)),
    })
  }
  fn get_authenticated_peer_credential_token(&self, _h: HandshakeHandle) -> SecurityResult<AuthenticatedPeerCredentialToken> {
    unsupported()
  }
  fn get_identity_token(&self, _h: IdentityHandle) -> SecurityResult<IdentityToken> {
    unsupported()
  }
  fn get_identity_status_token(&self, _h: IdentityHandle) -> SecurityResult<IdentityStatusToken> {
    unsupported()
  }
  fn set_permissions_credential_and_token(&mut self, _h: IdentityHandle, _c: PermissionsCredentialToken, _t: PermissionsToken) -> SecurityResult<()> {
    unsupported()
  }
  fn set_listener(&self) -> SecurityResult<()> {
    unsupported()
  }
}

/// The real AccessControlBuiltin with state built from the unsigned documents. Only the two
/// entry points that would demand signed documents are answered here.
struct PrebuiltAccess {
  inner: AccessControlBuiltin,
  local: PermissionsHandle,
  next_remote: PermissionsHandle,
}
impl ParticipantAccessControl for PrebuiltAccess {
  fn validate_local_permissions(&mut self, _a: &dyn Authentication, _i: IdentityHandle, _d: u16, _q: &QosPolicies) -> SecurityResult<PermissionsHandle> {
    Ok(self.local)
  }
  fn validate_remote_permissions(
    &mut self,
    _a: &dyn Authentication,
    _l: IdentityHandle,
    _r: IdentityHandle,
    _t: &PermissionsToken,
    _c: &AuthenticatedPeerCredentialToken,
  ) -> SecurityResult<PermissionsHandle> {
    self.next_remote += 1;
    Ok(self.next_remote)
  }
  fn check_create_participant(&self, h: PermissionsHandle, d: u16, q: &QosPolicies) -> SecurityResult<bool> {
    self.inner.check_create_participant(h, d, q)
  }
  fn check_remote_participant(&self, h: PermissionsHandle, d: u16, p: Option<&SpdpDiscoveredParticipantData>) -> SecurityResult<bool> {
    self.inner.check_remote_participant(h, d, p)
  }
  fn get_permissions_token(&self, h: PermissionsHandle) -> SecurityResult<PermissionsToken> {
    self.inner.get_permissions_token(h)
  }
  fn get_permissions_credential_token(&self, h: PermissionsHandle) -> SecurityResult<PermissionsCredentialToken> {
    self.inner.get_permissions_credential_token(h)
  }
  fn set_listener(&self) -> SecurityResult<()> {
    ParticipantAccessControl::set_listener(&self.inner)
  }
  fn get_participant_sec_attributes(&self, h: PermissionsHandle) -> SecurityResult<ParticipantSecurityAttributes> {
    self.inner.get_participant_sec_attributes(h)
  }
}
impl LocalEntityAccessControl for PrebuiltAccess {
  fn check_create_datawriter(&self, h: PermissionsHandle, d: u16, t: String, q: &QosPolicies) -> SecurityResult<bool> {
    self.inner.check_create_datawriter(h, d, t, q)
  }
  fn check_create_datareader(&self, h: PermissionsHandle, d: u16, t: String, q: &QosPolicies) -> SecurityResult<bool> {
    self.inner.check_create_datareader(h, d, t, q)
  }
  fn check_create_topic(&self, h: PermissionsHandle, d: u16, t: String, q: &QosPolicies) -> SecurityResult<bool> {
    self.inner.check_create_topic(h, d, t, q)
  }
  fn get_topic_sec_attributes(&self, h: PermissionsHandle, t: &str) -> SecurityResult<TopicSecurityAttributes> {
    self.inner.get_topic_sec_attributes(h, t)
  }
  fn get_datawriter_sec_attributes(&self, h: PermissionsHandle, t: String) -> SecurityResult<EndpointSecurityAttributes> {
    self.inner.get_datawriter_sec_attributes(h, t)
  }
  fn get_datareader_sec_attributes(&self, h: PermissionsHandle, t: String) -> SecurityResult<EndpointSecurityAttributes> {
    self.inner.get_datareader_sec_attributes(h, t)
  }
}
impl RemoteEntityAccessControl for PrebuiltAccess {
  fn check_remote_datawriter(&self, h: PermissionsHandle, d: u16, p: &PublicationBuiltinTopicDataSecure) -> SecurityResult<bool> {
    self.inner.check_remote_datawriter(h, d, p)
  }
  fn check_remote_datareader(&self, h: PermissionsHandle, d: u16, s: &SubscriptionBuiltinTopicDataSecure) -> SecurityResult<(bool, bool)> {
    self.inner.check_remote_datareader(h, d, s)
  }
  fn check_remote_topic(&self, h: PermissionsHandle, d: u16, t: &TopicBuiltinTopicData) -> SecurityResult<bool> {
    self.inner.check_remote_topic(h, d, t)
  }
}
impl AccessControl for PrebuiltAccess {}

// ---- parties ----------------------------------------------------------------------------------

fn es<T, E: std::fmt::Debug>(r: Result<T, E>, what: &str) -> Result<T, String> {
  r.map_err(|e| format!("{what}: {e:?}"))
}

fn user_eid(n: u8, writer: bool) -> EntityId {
  EntityId::new([0, 0, n], if writer { EntityKind::WRITER_WITH_KEY_USER_DEFINED } else { EntityKind::READER_WITH_KEY_USER_DEFINED })
}
fn builtin_tail(a: EntityId, b: EntityId, writers: bool) -> [EntityId; EP_COUNT] {
  if writers {
    [a, b, EntityId::SPDP_BUILTIN_PARTICIPANT_WRITER, EntityId::P2P_BUILTIN_PARTICIPANT_STATELESS_WRITER, EntityId::P2P_BUILTIN_PARTICIPANT_VOLATILE_SECURE_WRITER]
  } else {
    [a, b, EntityId::SPDP_BUILTIN_PARTICIPANT_READER, EntityId::P2P_BUILTIN_PARTICIPANT_STATELESS_READER, EntityId::P2P_BUILTIN_PARTICIPANT_VOLATILE_SECURE_READER]
  }
}
/// L's readers: which of the two user readers has the smaller entity id is the case's choice
fn local_reader_eids(prot_first: bool) -> [EntityId; EP_COUNT] {
  if prot_first {
    builtin_tail(user_eid(0x11, false), user_eid(0x12, false), false)
  } else {
    builtin_tail(user_eid(0x12, false), user_eid(0x11, false), false)
  }
}
fn local_writer_eids() -> [EntityId; EP_COUNT] {
  builtin_tail(user_eid(0x21, true), user_eid(0x22, true), true)
}
/// peer 0 = P (and the imposters), peer 1 = P2 with the user entity ids swapped between the topics
fn remote_writer_eids(peer: usize) -> [EntityId; EP_COUNT] {
  if peer == 0 {
    builtin_tail(user_eid(0x31, true), user_eid(0x32, true), true)
  } else {
    builtin_tail(user_eid(0x32, true), user_eid(0x31, true), true)
  }
}
fn remote_reader_eids(peer: usize) -> [EntityId; EP_COUNT] {
  if peer == 0 {
    builtin_tail(user_eid(0x41, false), user_eid(0x42, false), false)
  } else {
    builtin_tail(user_eid(0x42, false), user_eid(0x41, false), false)
  }
}

/// slots for which the library registers matched remote endpoints with the crypto plugin
/// (user topics through StartKeyExchangeWithRemoteEndpoint, the key-exchange topic through
/// register_remote_to_crypto); SPDP and the stateless topic never are.
const MATCHED_SLOTS: [usize; 3] = [EP_PROT, EP_OPEN, EP_VOLATILE];

/// The sequence DomainParticipantBuilder::build and create_datareader / create_datawriter run:
/// validate_local_identity, validate_local_permissions, get_participant_sec_attributes,
/// register_local_participant, then per endpoint get_*_sec_attributes + register_local_*.
fn build_party(cfg: &MrCfg, prefix: GuidPrefix, secret_seed: u64, readers: &[EntityId; EP_COUNT], writers: &[EntityId; EP_COUNT]) -> Result<SecurityPlugins, String> {
  let docs = crate::verif::sec::access::parse_docs(&cfg.governance_xml, &cfg.permissions_xml)?;
  let (ac, handle) = docs.decider(&cfg.subject_name, cfg.domain_id)?.into_parts();
  let mut sp = SecurityPlugins::new(
    Box::new(FabAuth { secret_seed, own: arr12(prefix), next: 1, remotes: vec![] }),
    Box::new(PrebuiltAccess { inner: ac, local: handle, next_remote: 1000 }),
    Box::new(CryptographicBuiltin::new()),
  );
  let qos = QosPolicies::qos_none();
  es(sp.validate_local_identity(cfg.domain_id, &qos, GUID::new(prefix, EntityId::PARTICIPANT)), "validate_local_identity")?;
  es(sp.validate_local_permissions(cfg.domain_id, prefix, &qos), "validate_local_permissions")?;
  let pattr = es(sp.get_participant_sec_attributes(prefix), "get_participant_sec_attributes")?;
  es(sp.register_local_participant(prefix, None, pattr), "register_local_participant")?;
  for s in 0..EP_COUNT {
    let rg = GUID::new(prefix, readers[s]);
    let a = es(sp.get_reader_sec_attributes(rg, TOPIC_NAMES[s].to_string()), "get_reader_sec_attributes")?;
    es(sp.register_local_reader(rg, None, a), "register_local_reader")?;
    let wg = GUID::new(prefix, writers[s]);
    let a = es(sp.get_writer_sec_attributes(wg, TOPIC_NAMES[s].to_string()), "get_writer_sec_attributes")?;
    es(sp.register_local_writer(wg, None, a), "register_local_writer")?;
  }
  Ok(sp)
}

/// `me` learns about the remote participant `other` and its endpoints (what SecureDiscovery does
/// after a successful handshake and on endpoint matches).
fn register_remote(
  me: &mut SecurityPlugins,
  me_prefix: GuidPrefix,
  my_readers: &[EntityId; EP_COUNT],
  my_writers: &[EntityId; EP_COUNT],
  other_prefix: GuidPrefix,
  other_readers: &[EntityId; EP_COUNT],
  other_writers: &[EntityId; EP_COUNT],
) -> Result<(), String> {
  es(me.validate_remote_identity(me_prefix, IdentityToken::dummy(), other_prefix, None), "validate_remote_identity")?;
  es(
    me.validate_remote_permissions(me_prefix, other_prefix, &PermissionsToken::from(DataHolder::dummy()), &AuthenticatedPeerCredentialToken::dummy()),
    "validate_remote_permissions",
  )?;
  let secret = es(me.get_shared_secret(other_prefix), "get_shared_secret")?;
  es(me.register_matched_remote_participant(other_prefix, secret), "register_matched_remote_participant")?;
  for s in MATCHED_SLOTS {
    es(
      me.register_matched_remote_writer_if_not_already(GUID::new(other_prefix, other_writers[s]), GUID::new(me_prefix, my_readers[s])),
      "register_matched_remote_writer",
    )?;
    es(
      me.register_matched_remote_reader_if_not_already(GUID::new(other_prefix, other_readers[s]), GUID::new(me_prefix, my_writers[s]), false),
      "register_matched_remote_reader",
    )?;
  }
  Ok(())
}

/// `from` hands its crypto tokens for `to` over (participant, and every matched endpoint except
/// the key-exchange topic, whose keys are derived from the shared secret).
fn give_tokens(
  from: &mut SecurityPlugins,
  from_prefix: GuidPrefix,
  from_readers: &[EntityId; EP_COUNT],
  from_writers: &[EntityId; EP_COUNT],
  to: &mut SecurityPlugins,
  to_prefix: GuidPrefix,
  to_readers: &[EntityId; EP_COUNT],
  to_writers: &[EntityId; EP_COUNT],
) -> Result<(), String> {
  let t = es(from.create_local_participant_crypto_tokens(to_prefix), "create_local_participant_crypto_tokens")?;
  es(to.set_remote_participant_crypto_tokens(from_prefix, t), "set_remote_participant_crypto_tokens")?;
  for s in [EP_PROT, EP_OPEN] {
    let (fw, tr) = (GUID::new(from_prefix, from_writers[s]), GUID::new(to_prefix, to_readers[s]));
    let t = es(from.create_local_writer_crypto_tokens(fw, tr), "create_local_writer_crypto_tokens")?;
    es(to.set_remote_writer_crypto_tokens(fw, tr, t), "set_remote_writer_crypto_tokens")?;
    let (fr, tw) = (GUID::new(from_prefix, from_readers[s]), GUID::new(to_prefix, to_writers[s]));
    let t = es(from.create_local_reader_crypto_tokens(fr, tw), "create_local_reader_crypto_tokens")?;
    es(to.set_remote_reader_crypto_tokens(fr, tw, t), "set_remote_reader_crypto_tokens")?;
  }
  Ok(())
}

struct Remote {
  prefix: GuidPrefix,
  sp: SecurityPlugins,
  writers: [EntityId; EP_COUNT],
  readers: [EntityId; EP_COUNT],
}

struct Rd {
  eid: EntityId,
  dr: with_key::DataReader<VSample>,
  topic_cache: Arc<Mutex<crate::structure::dds_cache::TopicCache>>,
}

pub struct MrBench {
  mr: MessageReceiver,
  handle: SecurityPluginsHandle,
  local_prefix: GuidPrefix,
  lr: [EntityId; EP_COUNT],
  lw: [EntityId; EP_COUNT],
  remotes: Vec<Remote>, // indexed by Who
  readers: Vec<Rd>,
  acknack_rx: mio_channel::Receiver<(GuidPrefix, AckSubmessage)>,
  spdp_rx: mio_channel::Receiver<GuidPrefix>,
  acks: Vec<AckSeen>,
  spdp_seen: usize,
  _pstatus_rx: Vec<StatusChannelReceiver<DomainParticipantStatusEvent>>,
}

thread_local! {
  static UDP: Rc<UDPSender> = Rc::new(UDPSender::new(0).expect("udp sender"));
  static TOPICS: Vec<Topic> = {
    let e = env();
    let q = QosPolicyBuilder::new().build();
    let w = e.dp.weak_clone();
    TOPIC_NAMES.iter().map(|n| Topic::new(&w, n.to_string(), TypeDesc::new("VSample".to_string()), &q, TopicKind::WithKey)).collect()
  };
}

fn arr12(p: GuidPrefix) -> [u8; 12] {
  let mut a = [0u8; 12];
  a.copy_from_slice(p.as_ref());
  a
}

fn who_index(w: Who) -> usize {
  match w {
    Who::Peer => 0,
    Who::ImposterSamePrefix => 1,
    Who::ImposterOtherPrefix => 2,
    Who::Peer2 => 3,
  }
}

impl MrBench {
  pub fn new(cfg: &MrCfg) -> Result<MrBench, String> {
    let e = env();
    let local_prefix = e.dp.guid_prefix();
    let mut pp = [0x50u8; 12];
    pp[4..12].copy_from_slice(&mix(cfg.fab_seed ^ 0x11).to_le_bytes());
    let peer_prefix = GuidPrefix::new(&pp);
    let mut op = [0x58u8; 12];
    op[4..12].copy_from_slice(&mix(cfg.fab_seed ^ 0x22).to_le_bytes());
    let other_prefix = GuidPrefix::new(&op);

    let mut p2p = [0x54u8; 12];
    p2p[4..12].copy_from_slice(&mix(cfg.fab_seed ^ 0x33).to_le_bytes());
    let peer2_prefix = GuidPrefix::new(&p2p);

    let (lr, lw) = (local_reader_eids(cfg.prot_reader_first), local_writer_eids());
    let (rw, rr) = (remote_writer_eids(0), remote_reader_eids(0));
    let (rw2, rr2) = (remote_writer_eids(1), remote_reader_eids(1));

    // ---- plugins of L, of the genuine peers, of the imposters
    let mut l = build_party(cfg, local_prefix, cfg.fab_seed, &lr, &lw)?;
    let mut p = build_party(cfg, peer_prefix, cfg.fab_seed, &rr, &rw)?;
    register_remote(&mut l, local_prefix, &lr, &lw, peer_prefix, &rr, &rw)?;
    register_remote(&mut p, peer_prefix, &rr, &rw, local_prefix, &lr, &lw)?;
    give_tokens(&mut p, peer_prefix, &rr, &rw, &mut l, local_prefix, &lr, &lw)?;
    give_tokens(&mut l, local_prefix, &lr, &lw, &mut p, peer_prefix, &rr, &rw)?;
    let mut p2 = build_party(cfg, peer2_prefix, cfg.fab_seed, &rr2, &rw2)?;
    register_remote(&mut l, local_prefix, &lr, &lw, peer2_prefix, &rr2, &rw2)?;
    register_remote(&mut p2, peer2_prefix, &rr2, &rw2, local_prefix, &lr, &lw)?;
    give_tokens(&mut p2, peer2_prefix, &rr2, &rw2, &mut l, local_prefix, &lr, &lw)?;
    give_tokens(&mut l, local_prefix, &lr, &lw, &mut p2, peer2_prefix, &rr2, &rw2)?;
    // the imposters know L (so that they can address it), L knows nothing of them
    let mut x1 = build_party(cfg, peer_prefix, cfg.fab_seed ^ 0xBAD1, &rr, &rw)?;
    register_remote(&mut x1, peer_prefix, &rr, &rw, local_prefix, &lr, &lw)?;
    let mut x2 = build_party(cfg, other_prefix, cfg.fab_seed ^ 0xBAD2, &rr, &rw)?;
    register_remote(&mut x2, other_prefix, &rr, &rw, local_prefix, &lr, &lw)?;
    let remotes = vec![
      Remote { prefix: peer_prefix, sp: p, writers: rw, readers: rr },
      Remote { prefix: peer_prefix, sp: x1, writers: rw, readers: rr },
      Remote { prefix: other_prefix, sp: x2, writers: rw, readers: rr },
      Remote { prefix: peer2_prefix, sp: p2, writers: rw2, readers: rr2 },
    ];

    let handle = SecurityPluginsHandle::new(l);

    // ---- MessageReceiver with the plugins, readers as create_datareader_internal wires them
    let (acknack_tx, acknack_rx) = mio_channel::sync_channel(256);
    let (spdp_tx, spdp_rx) = mio_channel::sync_channel(256);
    let mut mr = MessageReceiver::new(local_prefix, acknack_tx, spdp_tx, Some(handle.clone()));

    let qos = QosPolicyBuilder::new().reliability(policy::Reliability::BestEffort).history(policy::History::KeepAll).build();
    let mut ddsc = DDSCache::new();
    let mut readers = vec![];
    let mut pstatus = vec![];
    for s in 0..EP_COUNT {
      let topic = TOPICS.with(|t| t[s].clone());
      let topic_cache = ddsc.add_new_topic(topic.name(), topic.get_type(), &topic.qos());
      topic_cache.lock().unwrap().update_keep_limits(&qos);
      let reader_guid = GUID::new_with_prefix_and_id(local_prefix, lr[s]);
      let (send, rec) = mio_channel::sync_channel::<()>(4);
      let (status_sender, status_receiver) = sync_status_channel::<DataReaderStatus>(4).unwrap();
      let (reader_command_sender, reader_command_receiver) = mio_channel::sync_channel::<ReaderCommand>(0);
      let data_reader_waker = Arc::new(Mutex::new(None));
      let (poll_event_source, poll_event_sender) = mio_source::make_poll_channel().unwrap();
      let (pstatus_tx, pstatus_rx) = sync_status_channel(16).unwrap();
      let (disc_tx, disc_rx) = mio_channel::sync_channel::<DiscoveryCommand>(4);
      drop(disc_rx);
      let ing = ReaderIngredients {
        guid: reader_guid,
        notification_sender: send,
        status_sender,
        topic_name: topic.name(),
        topic_cache_handle: topic_cache.clone(),
        // only the stateless-message reader is created stateless by Discovery
        like_stateless: s == EP_STATELESS,
        qos_policy: qos.clone(),
        data_reader_command_receiver: reader_command_receiver,
        data_reader_waker: data_reader_waker.clone(),
        poll_event_sender,
        security_plugins: Some(handle.clone()),
      };
      let mut reader = Reader::new(ing, UDP.with(|u| u.clone()), mio_extras::timer::Builder::default().build(), pstatus_tx);
      // writer proxies as discovery would add them (the SPDP reader listens to unknown writers,
      // the stateless reader has no proxies at all)
      if MATCHED_SLOTS.contains(&s) {
        let addr: SocketAddr = "127.0.0.1:7".parse().unwrap();
        for (pfx, eid) in [(peer_prefix, rw[s]), (peer2_prefix, rw2[s])] {
          let proxy = RtpsWriterProxy::new(GUID::new(pfx, eid), vec![Locator::from(addr)], vec![], EntityId::UNKNOWN);
          reader.update_writer_proxy(proxy, &qos);
        }
      }
      let sdr = es(
        with_key::SimpleDataReader::<VSample, CDRDeserializerAdapter<VSample>>::new(
          e.sub.clone(),
          lr[s],
          topic.clone(),
          qos.clone(),
          rec,
          topic_cache.clone(),
          disc_tx,
          status_receiver,
          reader_command_sender,
          data_reader_waker,
          poll_event_source,
        ),
        "SimpleDataReader::new",
      )?;
      mr.add_reader(reader);
      readers.push(Rd { eid: lr[s], dr: with_key::DataReader::from_simple_data_reader(sdr), topic_cache });
      pstatus.push(pstatus_rx);
    }

    Ok(MrBench { mr, handle, local_prefix, lr, lw, remotes, readers, acknack_rx, spdp_rx, acks: vec![], spdp_seen: 0, _pstatus_rx: pstatus })
  }

  pub fn ids(&self) -> Ids {
    let f = |a: [EntityId; EP_COUNT]| {
      let mut o = [[0u8; 4]; EP_COUNT];
      for i in 0..EP_COUNT {
        o[i] = a[i].to_slice();
      }
      o
    };
    Ids {
      local_prefix: arr12(self.local_prefix),
      peer_prefix: [arr12(self.remotes[0].prefix), arr12(self.remotes[3].prefix)],
      other_prefix: arr12(self.remotes[2].prefix),
      local_readers: f(self.lr),
      local_writers: f(self.lw),
      remote_writers: [f(self.remotes[0].writers), f(self.remotes[3].writers)],
      remote_readers: [f(self.remotes[0].readers), f(self.remotes[3].readers)],
    }
  }

  pub fn answers(&self) -> Answers {
    let pl = self.handle.get_plugins();
    let (lr, lw) = (self.lr, self.lw);
    let mut a = Answers {
      rtps_not_protected: pl.rtps_not_protected(&self.local_prefix),
      reader_submessage_not_protected: [false; EP_COUNT],
      reader_payload_not_protected: [false; EP_COUNT],
      writer_submessage_not_protected: [false; EP_COUNT],
    };
    for s in 0..EP_COUNT {
      a.reader_submessage_not_protected[s] = pl.submessage_not_protected(&GUID::new(self.local_prefix, lr[s]));
      a.reader_payload_not_protected[s] = pl.payload_not_protected(&GUID::new(self.local_prefix, lr[s]));
      a.writer_submessage_not_protected[s] = pl.submessage_not_protected(&GUID::new(self.local_prefix, lw[s]));
    }
    a
  }

  /// Feed one datagram to MessageReceiver::handle_received_packet. Returns the number of
  /// datagrams the readers wanted to send in reply (captured, nothing reaches the network).
  pub fn inject(&mut self, datagram: &[u8]) -> usize {
    net::capture_begin();
    self.mr.handle_received_packet(&Bytes::copy_from_slice(datagram));
    let sent = net::capture_end();
    self.drain_channels();
    sent.len()
  }

  fn drain_channels(&mut self) {
    while let Ok((src, a)) = self.acknack_rx.try_recv() {
      let seen = match a {
        AckSubmessage::AckNack(a) => AckSeen { nackfrag: false, source_prefix: arr12(src), reader_id: a.reader_id.to_slice(), writer_id: a.writer_id.to_slice(), count: a.count },
        AckSubmessage::NackFrag(n) => AckSeen { nackfrag: true, source_prefix: arr12(src), reader_id: n.reader_id.to_slice(), writer_id: n.writer_id.to_slice(), count: n.count },
      };
      self.acks.push(seen);
    }
    while self.spdp_rx.try_recv().is_ok() {
      self.spdp_seen += 1;
    }
  }

  /// Everything that has reached a Reader (its TopicCache; then DataReader::take) or the acknack
  /// channel. Call once, after the last datagram.
  pub fn what_reached(&mut self) -> Reached {
    self.drain_channels();
    let mut out = Reached { cache: vec![], taken: vec![], disposes: vec![], acks: std::mem::take(&mut self.acks), spdp_liveness: std::mem::take(&mut self.spdp_seen) };
    for rd in self.readers.iter_mut() {
      let mut seen = vec![];
      {
        let tc = rd.topic_cache.lock().unwrap();
        for (_t, cc) in tc.get_changes_in_range_best_effort(crate::Timestamp::ZERO, crate::Timestamp::now() + crate::Duration::from_secs(3600)) {
          let (is_data, payload) = match &cc.data_value {
            crate::dds::ddsdata::DDSData::Data { serialized_payload } => (true, Some(serialized_payload)),
            crate::dds::ddsdata::DDSData::DisposeByKey { key, .. } => (false, Some(key)),
            crate::dds::ddsdata::DDSData::DisposeByKeyHash { .. } => (false, None),
          };
          let payload = payload.map_or(vec![], |p| {
            let mut v = p.representation_identifier.bytes.to_vec();
            v.extend_from_slice(&p.representation_options);
            v.extend_from_slice(&p.value);
            v
          });
          seen.push(InCache { writer: cc.writer_guid.to_bytes(), sn: i64::from(cc.sequence_number), is_data, payload });
        }
      }
      out.cache.push(seen);
      let mut disp = vec![];
      let taken = rd.dr.take(1 << 20, ReadCondition::any()).map_err(|e| format!("take on reader {:?}: {e:?}", rd.eid)).map(|got| {
        let mut ids = vec![];
        for ds in &got {
          match ds.value() {
            Sample::Value(v) => ids.push(v.id),
            Sample::Dispose(k) => disp.push(*k),
          }
        }
        ids
      });
      out.taken.push(taken);
      out.disposes.push(disp);
    }
    out
  }

  // ---------------------------------------------------------------------------- protect_*
  // Ok(None): the configuration does not protect this level for that endpoint (the library
  // hands the plaintext back unchanged).

  /// `who`'s writer of slot `slot` encodes a serialized payload (or one DATAFRAG's bytes).
  pub fn protect_payload(&self, who: Who, slot: usize, plain: &[u8]) -> Result<Option<Vec<u8>>, String> {
    let r = &self.remotes[who_index(who)];
    let wg = GUID::new(r.prefix, r.writers[slot]);
    if r.sp.payload_not_protected(&wg) {
      return Ok(None);
    }
    let (enc, extra) = es(r.sp.encode_serialized_payload(plain.to_vec(), &wg), "encode_serialized_payload")?;
    if !extra.parameters.is_empty() {
      return Err("encode_serialized_payload returned extra inline QoS (not expected from the builtin plugin)".into());
    }
    Ok(Some(enc))
  }

  /// `who`'s endpoint of slot `key_slot` (its writer for a writer submessage, its reader for a
  /// reader submessage) protects one serialized plaintext submessage (header + body) for L's
  /// matched endpoint of the same slot. Returns the serialized SEC_PREFIX, body (SEC_BODY, or the
  /// plaintext submessage again when the topic only signs) and SEC_POSTFIX.
  pub fn protect_submessage(&self, who: Who, key_slot: usize, submessage: &[u8]) -> Result<Option<[Vec<u8>; 3]>, String> {
    let r = &self.remotes[who_index(who)];
    let mut b = Bytes::copy_from_slice(submessage);
    let sm: Submessage = es(Submessage::read_from_buffer(&mut b), "parse plaintext submessage")?.ok_or("plaintext submessage of a kind the parser skips")?;
    if !b.is_empty() {
      return Err("generator: more than one submessage handed to protect_submessage".into());
    }
    let enc = match &sm.body {
      crate::rtps::SubmessageBody::Writer(_) => {
        let src = GUID::new(r.prefix, r.writers[key_slot]);
        let dst = GUID::new(self.local_prefix, self.lr[key_slot]);
        es(r.sp.encode_datawriter_submessage(sm, &src, &[dst]), "encode_datawriter_submessage")?
      }
      crate::rtps::SubmessageBody::Reader(_) => {
        let src = GUID::new(r.prefix, r.readers[key_slot]);
        let dst = GUID::new(self.local_prefix, self.lw[key_slot]);
        es(r.sp.encode_datareader_submessage(sm, &src, &[dst]), "encode_datareader_submessage")?
      }
      _ => return Err("generator: only entity submessages are protected at submessage level".into()),
    };
    match enc {
      EncodedSubmessage::Unencoded(_) => Ok(None),
      EncodedSubmessage::Encoded(a, m, z) => {
        let w = |s: &Submessage| es(s.write_to_vec_with_ctx(Endianness::LittleEndian), "serialise encoded submessage");
        Ok(Some([w(&a)?, w(&m)?, w(&z)?]))
      }
    }
  }

  /// `who` protects a whole plaintext RTPS message (header + submessages) for L. The header of
  /// the result is the header of `datagram`.
  pub fn protect_message(&self, who: Who, datagram: &[u8]) -> Result<Option<Vec<u8>>, String> {
    let r = &self.remotes[who_index(who)];
    let msg = es(Message::read_from_buffer(&Bytes::copy_from_slice(datagram)), "parse plaintext message")?;
    let n = msg.submessages.len();
    let enc = es(r.sp.encode_message(msg, &r.prefix, &[self.local_prefix]), "encode_message")?;
    let wrapped = matches!(
      enc.submessages.first(),
      Some(Submessage { body: crate::rtps::SubmessageBody::Security(crate::messages::submessages::submessage::SecuritySubmessage::SecureRTPSPrefix(..)), .. })
    );
    if !wrapped {
      if enc.submessages.len() != n {
        return Err("encode_message returned an unwrapped message of different length".into());
      }
      return Ok(None);
    }
    Ok(Some(es(enc.write_to_vec_with_ctx(Endianness::LittleEndian), "serialise protected message")?))
  }
}
