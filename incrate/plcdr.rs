// E-CODEC in-crate driver for C15: discovery data and QoS on the wire.
//
// * value generators (u64 seed) for SpdpDiscoveredParticipantData,
//   DiscoveredReaderData, DiscoveredWriterData, DiscoveredTopicData,
//   ParticipantMessageData and QosPolicies; every optional field is drawn
//   present/absent independently;
// * serialisation through the implementation's own entry points
//   (`to_pl_cdr_bytes`, `QosPolicies::to_parameter_list`, the CDR adapter for
//   ParticipantMessageData) in both byte orders, parsing through
//   `from_pl_cdr_bytes` / `QosPolicies::from_parameter_list` / the CDR adapter;
// * an opaque value handle `V` whose observations are plain data: PartialEq
//   verdict (ignoring the locally stamped, never transmitted time fields), a
//   lossless per-field rendering written here (NOT the Debug impls, Duration's
//   Debug rounds), the Debug text, and the presence of each optional field;
// * a lease probe on a hand-built DiscoveryDB (what an absent
//   PID_PARTICIPANT_LEASE_DURATION amounts to when the proxy is aged).
//
// No oracle here: the harness (c_plcdr.rs) walks/modifies the bytes with its own
// parameter-list walker and judges.
use std::{
  panic::{catch_unwind, AssertUnwindSafe},
  time::Instant,
};

use byteorder::{BigEndian, LittleEndian};
use chrono::Utc;
use speedy::{Endianness, Readable, Writable};

use crate::{
  dds::{
    adapters::no_key::{DeserializerAdapter, SerializerAdapter},
    qos::{policy, QosPolicies},
    statusevents::{sync_status_channel, LostReason},
  },
  discovery::{
    builtin_endpoint::{BuiltinEndpointQos, BuiltinEndpointSet},
    content_filter_property::ContentFilterProperty,
    discovery_db::DiscoveryDB,
    DiscoveredReaderData, DiscoveredTopicData, DiscoveredWriterData, ParticipantMessageData,
    ParticipantMessageDataKind, PublicationBuiltinTopicData, ReaderProxy,
    SpdpDiscoveredParticipantData, SubscriptionBuiltinTopicData, TopicBuiltinTopicData,
    WriterProxy,
  },
  messages::{
    protocol_version::ProtocolVersion, submessages::elements::parameter_list::ParameterList,
    vendor_id::VendorId,
  },
  serialization::{
    pl_cdr_adapters::{PlCdrDeserialize, PlCdrSerialize},
    CDRDeserializerAdapter, CDRSerializerAdapter,
  },
  structure::{
    duration::Duration,
    guid::{EntityId, GuidPrefix, GUID},
    locator::Locator,
  },
  RepresentationIdentifier,
};

pub const KIND_PARTICIPANT: u8 = 0;
pub const KIND_READER: u8 = 1;
pub const KIND_WRITER: u8 = 2;
pub const KIND_TOPIC: u8 = 3;
pub const KIND_QOS: u8 = 4;
pub const KIND_PMSG: u8 = 5;

pub fn kind_name(kind: u8) -> &'static str {
  match kind {
    KIND_PARTICIPANT => "SpdpDiscoveredParticipantData",
    KIND_READER => "DiscoveredReaderData",
    KIND_WRITER => "DiscoveredWriterData",
    KIND_TOPIC => "DiscoveredTopicData",
    KIND_QOS => "QosPolicies",
    _ => "ParticipantMessageData",
  }
}

/// true for the kinds that travel as a parameter list (PL_CDR); ParticipantMessageData is plain CDR.
pub fn is_parameter_list(kind: u8) -> bool {
  kind != KIND_PMSG
}

struct R(u64);
impl R {
  fn next(&mut self) -> u64 {
    self.0 = self.0.wrapping_add(0x9E3779B97F4A7C15);
    let mut z = self.0;
    z = (z ^ (z >> 30)).wrapping_mul(0xBF58476D1CE4E5B9);
    z = (z ^ (z >> 27)).wrapping_mul(0x94D049BB133111EB);
    z ^ (z >> 31)
  }
  fn below(&mut self, n: u64) -> u64 {
    if n == 0 {
      0
    } else {
      self.next() % n
    }
  }
  fn coin(&mut self) -> bool {
    self.next() & 1 == 1
  }
  fn chance(&mut self, a: u64, b: u64) -> bool {
    self.below(b) < a
  }
  fn bytes(&mut self, n: usize) -> Vec<u8> {
    (0..n).map(|_| self.next() as u8).collect()
  }
  fn opt<T>(&mut self, f: impl FnOnce(&mut R) -> T) -> Option<T> {
    if self.coin() {
      Some(f(self))
    } else {
      None
    }
  }
}

// ---------------------------------------------------------------------------
// generators
// ---------------------------------------------------------------------------
fn g_duration(r: &mut R) -> Duration {
  match r.below(9) {
    0 => Duration::ZERO,
    1 => Duration::INFINITE,
    2 => Duration::from_secs(100),
    3 => Duration::from_millis(100),
    4 => Duration::from_ticks(1),
    5 => Duration::from_ticks(((r.below(1 << 31)) << 32) as i64 | 0xFFFF_FFFF),
    6 => Duration::from_ticks(r.next() as i64), // full range, also negative seconds
    _ => Duration::from_ticks((r.below(100_000) << 32) as i64 | (r.next() as u32 as i64)),
  }
}

fn g_string(r: &mut R) -> String {
  const ASCII: &[u8] = b"abcdefghijklmnopqrstuvwxyzABCDEFGHIJKLMNOPQRSTUVWXYZ0123456789_:/<>= %.";
  const WIDE: &[char] = &['\u{e4}', '\u{20ac}', '\u{1d11e}', '\u{3b1}'];
  let len = match r.below(8) {
    0 => 0,
    1 => 1,
    2 => 2,
    3 => 3,
    4 => 4,
    _ => r.below(40),
  };
  let mut s = String::new();
  for _ in 0..len {
    if r.chance(1, 12) {
      s.push(WIDE[r.below(WIDE.len() as u64) as usize]);
    } else {
      s.push(ASCII[r.below(ASCII.len() as u64) as usize] as char);
    }
  }
  s
}

fn g_name(r: &mut R) -> String {
  // topic / type names: mostly non-empty
  let mut s = g_string(r);
  if s.is_empty() && r.chance(7, 8) {
    s.push('T');
  }
  s
}

fn g_guid(r: &mut R) -> GUID {
  match r.below(8) {
    0 => GUID::GUID_UNKNOWN,
    1 => {
      let mut b = [0u8; 16];
      b[..12].copy_from_slice(&r.bytes(12));
      GUID::new(GuidPrefix::new(&b[..12]), EntityId::PARTICIPANT)
    }
    _ => {
      let mut b = [0u8; 16];
      b.copy_from_slice(&r.bytes(16));
      GUID::from_bytes(b)
    }
  }
}

fn g_locator(r: &mut R) -> Locator {
  use std::net::{Ipv4Addr, Ipv6Addr, SocketAddrV4, SocketAddrV6};
  match r.below(10) {
    0 => Locator::Invalid,
    1 => Locator::Reserved,
    2 | 3 | 4 => {
      let ip = match r.below(4) {
        0 => Ipv4Addr::new(127, 0, 0, 1),
        1 => Ipv4Addr::new(239, 255, 0, 1),
        2 => Ipv4Addr::new(0, 0, 0, 0),
        _ => Ipv4Addr::from(r.next() as u32),
      };
      let port = match r.below(4) {
        0 => 0,
        1 => 7400,
        2 => u16::MAX,
        _ => r.next() as u16,
      };
      Locator::UdpV4(SocketAddrV4::new(ip, port))
    }
    5 | 6 => {
      let mut a = [0u8; 16];
      a.copy_from_slice(&r.bytes(16));
      let ip = if r.chance(1, 5) { Ipv6Addr::LOCALHOST } else { Ipv6Addr::from(a) };
      // flowinfo / scope_id have no place in Locator_t: kept 0 (not transmitted by design)
      Locator::UdpV6(SocketAddrV6::new(ip, r.next() as u16, 0, 0))
    }
    _ => {
      // kinds -1, 0, 1, 2 are the dedicated variants above; any other kind is `Other`
      let kind = match r.below(6) {
        0 => 4,          // TCPv4
        1 => 8,          // TCPv6
        2 => 16,         // SHMEM
        3 => 0x0100_0000, // vendor range
        4 => i32::MIN,
        _ => {
          let k = r.next() as i32;
          if (-1..=2).contains(&k) {
            k.wrapping_add(100)
          } else {
            k
          }
        }
      };
      let mut address = [0u8; 16];
      address.copy_from_slice(&r.bytes(16));
      Locator::Other { kind, port: r.next() as u32, address }
    }
  }
}

fn g_locators(r: &mut R) -> Vec<Locator> {
  let n = match r.below(4) {
    0 | 1 => 0,
    2 => 1,
    _ => 1 + r.below(3),
  };
  (0..n).map(|_| g_locator(r)).collect()
}

fn g_i32(r: &mut R) -> i32 {
  match r.below(8) {
    0 => 0,
    1 => 1,
    2 => -1,
    3 => i32::MAX,
    4 => i32::MIN,
    _ => r.next() as i32,
  }
}

fn g_qos(r: &mut R) -> QosPolicies {
  use policy::*;
  QosPolicies {
    durability: r.opt(|r| match r.below(4) {
      0 => Durability::Volatile,
      1 => Durability::TransientLocal,
      2 => Durability::Transient,
      _ => Durability::Persistent,
    }),
    presentation: r.opt(|r| Presentation {
      access_scope: match r.below(3) {
        0 => PresentationAccessScope::Instance,
        1 => PresentationAccessScope::Topic,
        _ => PresentationAccessScope::Group,
      },
      coherent_access: r.coin(),
      ordered_access: r.coin(),
    }),
    deadline: r.opt(|r| Deadline(g_duration(r))),
    latency_budget: r.opt(|r| LatencyBudget { duration: g_duration(r) }),
    ownership: r.opt(|r| if r.coin() { Ownership::Shared } else { Ownership::Exclusive { strength: g_i32(r) } }),
    liveliness: r.opt(|r| {
      let lease_duration = g_duration(r);
      match r.below(3) {
        0 => Liveliness::Automatic { lease_duration },
        1 => Liveliness::ManualByParticipant { lease_duration },
        _ => Liveliness::ManualByTopic { lease_duration },
      }
    }),
    time_based_filter: r.opt(|r| TimeBasedFilter { minimum_separation: g_duration(r) }),
    reliability: r.opt(|r| if r.coin() { Reliability::BestEffort } else { Reliability::Reliable { max_blocking_time: g_duration(r) } }),
    destination_order: r.opt(|r| if r.coin() { DestinationOrder::ByReceptionTimestamp } else { DestinationOrder::BySourceTimeStamp }),
    history: r.opt(|r| if r.chance(1, 3) { History::KeepAll } else { History::KeepLast { depth: g_i32(r) } }),
    resource_limits: r.opt(|r| ResourceLimits { max_samples: g_i32(r), max_instances: g_i32(r), max_samples_per_instance: g_i32(r) }),
    lifespan: r.opt(|r| Lifespan { duration: g_duration(r) }),
    #[cfg(feature = "security")]
    property: None,
  }
}

fn g_participant(r: &mut R) -> SpdpDiscoveredParticipantData {
  SpdpDiscoveredParticipantData {
    updated_time: Utc::now(),
    protocol_version: if r.coin() { ProtocolVersion::THIS_IMPLEMENTATION } else { ProtocolVersion { major: r.next() as u8, minor: r.next() as u8 } },
    vendor_id: if r.coin() { VendorId::THIS_IMPLEMENTATION } else { VendorId { vendor_id: [r.next() as u8, r.next() as u8] } },
    expects_inline_qos: r.coin(),
    participant_guid: g_guid(r),
    metatraffic_unicast_locators: g_locators(r),
    metatraffic_multicast_locators: g_locators(r),
    default_unicast_locators: g_locators(r),
    default_multicast_locators: g_locators(r),
    available_builtin_endpoints: BuiltinEndpointSet::from_u32(match r.below(4) {
      0 => 0,
      1 => 0x0000_0c3f,
      2 => u32::MAX,
      _ => r.next() as u32,
    }),
    lease_duration: r.opt(g_duration),
    manual_liveliness_count: g_i32(r),
    builtin_endpoint_qos: r.opt(|r| {
      let v: u32 = match r.below(3) {
        0 => 0,
        1 => 1,
        _ => r.next() as u32,
      };
      // the only field is private and there is no constructor: derive'd Readable of one u32
      BuiltinEndpointQos::read_from_buffer_with_ctx(Endianness::LittleEndian, &v.to_le_bytes()).unwrap()
    }),
    entity_name: r.opt(g_string),
    #[cfg(feature = "security")]
    identity_token: None,
    #[cfg(feature = "security")]
    permissions_token: None,
    #[cfg(feature = "security")]
    property: None,
    #[cfg(feature = "security")]
    security_info: None,
  }
}

fn g_content_filter(r: &mut R) -> ContentFilterProperty {
  let nonempty = |r: &mut R| {
    let mut s = g_string(r);
    if s.is_empty() && r.chance(9, 10) {
      s.push('f');
    }
    s
  };
  ContentFilterProperty {
    content_filtered_topic_name: nonempty(r),
    related_topic_name: nonempty(r),
    filter_class_name: if r.coin() { "DDSSQL".to_string() } else { nonempty(r) },
    filter_expression: nonempty(r),
    expression_parameters: (0..r.below(4)).map(|_| g_string(r)).collect(),
  }
}

fn g_reader(r: &mut R) -> DiscoveredReaderData {
  let guid = g_guid(r);
  let qos = g_qos(r);
  DiscoveredReaderData {
    // remote_reader_guid and subscription_topic_data.key are the same datum (one PID_ENDPOINT_GUID)
    reader_proxy: ReaderProxy::new(guid, r.coin(), g_locators(r), g_locators(r)),
    subscription_topic_data: SubscriptionBuiltinTopicData::new(guid, r.opt(g_guid), g_name(r), g_name(r), &qos, None),
    content_filter: r.opt(g_content_filter),
  }
}

fn g_writer(r: &mut R) -> DiscoveredWriterData {
  let guid = g_guid(r);
  let qos = g_qos(r);
  let mut p = PublicationBuiltinTopicData::new_with_qos(guid, r.opt(g_guid), g_name(r), g_name(r), &qos, None);
  // DDS-RPC extension fields: drawn present with a lower probability (they are
  // public fields of the type and are written by the serialiser)
  if r.chance(1, 4) {
    p.service_instance_name = Some(g_string(r));
  }
  if r.chance(1, 4) {
    p.related_datareader_key = Some(g_guid(r));
  }
  if r.chance(1, 4) {
    // Some(empty) and None have the same wire form (one parameter per alias): only non-empty lists
    p.topic_aliases = Some((0..1 + r.below(3)).map(|_| g_string(r)).collect());
  }
  DiscoveredWriterData {
    last_updated: Instant::now(),
    writer_proxy: WriterProxy {
      remote_writer_guid: guid,
      unicast_locator_list: g_locators(r),
      multicast_locator_list: g_locators(r),
      data_max_size_serialized: r.opt(|r| match r.below(3) {
        0 => 0,
        1 => u32::MAX,
        _ => r.next() as u32,
      }),
    },
    publication_topic_data: p,
  }
}

fn g_topic(r: &mut R) -> DiscoveredTopicData {
  let qos = g_qos(r);
  DiscoveredTopicData::new(Utc::now(), TopicBuiltinTopicData::new(r.opt(g_guid), g_name(r), g_name(r), &qos))
}

fn g_pmsg(r: &mut R) -> ParticipantMessageData {
  let kind = match r.below(4) {
    0 => ParticipantMessageDataKind::UNKNOWN,
    1 => ParticipantMessageDataKind::AUTOMATIC_LIVELINESS_UPDATE,
    2 => ParticipantMessageDataKind::MANUAL_LIVELINESS_UPDATE,
    _ => {
      // any other (also vendor-specific, top bit set) kind: the field is private, built from 4 octets
      let b = r.bytes(4);
      <CDRDeserializerAdapter<ParticipantMessageDataKind> as DeserializerAdapter<ParticipantMessageDataKind>>::from_bytes(&b, RepresentationIdentifier::CDR_LE)
        .unwrap_or(ParticipantMessageDataKind::UNKNOWN)
    }
  };
  let n = match r.below(4) {
    0 | 1 => 0,
    2 => 1 + r.below(4),
    _ => r.below(40),
  };
  ParticipantMessageData { guid: GuidPrefix::new(&r.bytes(12)), kind, data: r.bytes(n as usize) }
}

// ---------------------------------------------------------------------------
// plain rendering (lossless, written here)
// ---------------------------------------------------------------------------
fn hexs(b: &[u8]) -> String {
  let mut s = String::with_capacity(b.len() * 2);
  for x in b {
    s.push_str(&format!("{x:02x}"));
  }
  s
}
fn p_dur(d: Duration) -> String {
  let t = d.to_ticks();
  format!("D{}.{}", t >> 32, t as u32)
}
fn p_guid(g: &GUID) -> String {
  hexs(&g.to_bytes())
}
fn p_str(s: &str) -> String {
  format!("s:{s}")
}
fn p_opt<T>(o: &Option<T>, f: impl Fn(&T) -> String) -> String {
  match o {
    None => "-".to_string(),
    Some(x) => f(x),
  }
}
fn p_loc(l: &Locator) -> String {
  match l {
    Locator::Invalid => "invalid".to_string(),
    Locator::Reserved => "reserved".to_string(),
    Locator::UdpV4(sa) => format!("udp4:{}:{}", sa.ip(), sa.port()),
    Locator::UdpV6(sa) => format!("udp6:{}:{}:{}:{}", sa.ip(), sa.port(), sa.flowinfo(), sa.scope_id()),
    Locator::Other { kind, port, address } => format!("other:{kind}:{port}:{}", hexs(address)),
  }
}
fn p_locs(v: &[Locator]) -> String {
  format!("[{}]", v.iter().map(p_loc).collect::<Vec<_>>().join(","))
}
fn p_strs(v: &[String]) -> String {
  format!("[{}]", v.iter().map(|s| format!("{s:?}")).collect::<Vec<_>>().join(","))
}

// `skip`: policies the enclosing type has no member for (e.g. HISTORY in
// Subscription/PublicationBuiltinTopicData, RTPS figure 8.30)
fn qos_fields(prefix: &str, skip: &[&str], q: &QosPolicies, out: &mut Vec<(String, String)>) {
  use policy::*;
  let mut put = |n: &str, v: String| {
    if !skip.contains(&n) {
      out.push((format!("{prefix}{n}"), v));
    }
  };
  put("durability", p_opt(&q.durability, |d| format!("{d:?}")));
  put(
    "presentation",
    p_opt(&q.presentation, |p| format!("{:?}/{}/{}", p.access_scope, p.coherent_access, p.ordered_access)),
  );
  put("deadline", p_opt(&q.deadline, |d| p_dur(d.0)));
  put("latency_budget", p_opt(&q.latency_budget, |d| p_dur(d.duration)));
  put(
    "ownership",
    p_opt(&q.ownership, |o| match o {
      Ownership::Shared => "Shared".to_string(),
      Ownership::Exclusive { strength } => format!("Exclusive/{strength}"),
    }),
  );
  put(
    "liveliness",
    p_opt(&q.liveliness, |l| match l {
      Liveliness::Automatic { lease_duration } => format!("Automatic/{}", p_dur(*lease_duration)),
      Liveliness::ManualByParticipant { lease_duration } => format!("ManualByParticipant/{}", p_dur(*lease_duration)),
      Liveliness::ManualByTopic { lease_duration } => format!("ManualByTopic/{}", p_dur(*lease_duration)),
    }),
  );
  put("time_based_filter", p_opt(&q.time_based_filter, |d| p_dur(d.minimum_separation)));
  put(
    "reliability",
    p_opt(&q.reliability, |x| match x {
      Reliability::BestEffort => "BestEffort".to_string(),
      Reliability::Reliable { max_blocking_time } => format!("Reliable/{}", p_dur(*max_blocking_time)),
    }),
  );
  put(
    "destination_order",
    p_opt(&q.destination_order, |d| match d {
      DestinationOrder::ByReceptionTimestamp => "ByReceptionTimestamp".to_string(),
      DestinationOrder::BySourceTimeStamp => "BySourceTimestamp".to_string(),
    }),
  );
  put(
    "history",
    p_opt(&q.history, |h| match h {
      History::KeepAll => "KeepAll".to_string(),
      History::KeepLast { depth } => format!("KeepLast/{depth}"),
    }),
  );
  put(
    "resource_limits",
    p_opt(&q.resource_limits, |x| format!("{}/{}/{}", x.max_samples, x.max_instances, x.max_samples_per_instance)),
  );
  put("lifespan", p_opt(&q.lifespan, |d| p_dur(d.duration)));
}

fn qos_presence(prefix: &str, skip: &[&str], q: &QosPolicies, out: &mut Vec<(String, bool)>) {
  let mut put = |n: &str, b: bool| {
    if !skip.contains(&n) {
      out.push((format!("{prefix}{n}"), b));
    }
  };
  put("durability", q.durability.is_some());
  put("presentation", q.presentation.is_some());
  put("deadline", q.deadline.is_some());
  put("latency_budget", q.latency_budget.is_some());
  put("ownership", q.ownership.is_some());
  put("liveliness", q.liveliness.is_some());
  put("time_based_filter", q.time_based_filter.is_some());
  put("reliability", q.reliability.is_some());
  put("destination_order", q.destination_order.is_some());
  put("history", q.history.is_some());
  put("resource_limits", q.resource_limits.is_some());
  put("lifespan", q.lifespan.is_some());
}

const ENDPOINT_SKIP: &[&str] = &["history", "resource_limits"];
const TOPIC_SKIP: &[&str] = &["time_based_filter"];

// ---------------------------------------------------------------------------
// the value handle
// ---------------------------------------------------------------------------
enum Val {
  P(SpdpDiscoveredParticipantData),
  R(DiscoveredReaderData),
  W(DiscoveredWriterData),
  T(DiscoveredTopicData),
  Q(QosPolicies),
  M(ParticipantMessageData),
}

/// Opaque value of one of the six kinds; everything observable is plain data.
pub struct V {
  kind: u8,
  val: Val,
}

fn rep(kind: u8, big_endian: bool) -> RepresentationIdentifier {
  match (is_parameter_list(kind), big_endian) {
    (true, false) => RepresentationIdentifier::PL_CDR_LE,
    (true, true) => RepresentationIdentifier::PL_CDR_BE,
    (false, false) => RepresentationIdentifier::CDR_LE,
    (false, true) => RepresentationIdentifier::CDR_BE,
  }
}
fn ctx(big_endian: bool) -> Endianness {
  if big_endian {
    Endianness::BigEndian
  } else {
    Endianness::LittleEndian
  }
}

fn panic_text(p: Box<dyn std::any::Any + Send>) -> String {
  if let Some(s) = p.downcast_ref::<&str>() {
    format!("PANIC: {s}")
  } else if let Some(s) = p.downcast_ref::<String>() {
    format!("PANIC: {s}")
  } else {
    "PANIC".to_string()
  }
}

impl V {
  pub fn generate(kind: u8, seed: u64) -> V {
    let mut r = R(seed ^ ((kind as u64) << 56));
    let val = match kind {
      KIND_PARTICIPANT => Val::P(g_participant(&mut r)),
      KIND_READER => Val::R(g_reader(&mut r)),
      KIND_WRITER => Val::W(g_writer(&mut r)),
      KIND_TOPIC => Val::T(g_topic(&mut r)),
      KIND_QOS => Val::Q(g_qos(&mut r)),
      _ => Val::M(g_pmsg(&mut r)),
    };
    V { kind: kind.min(KIND_PMSG), val }
  }

  pub fn kind(&self) -> u8 {
    self.kind
  }

  /// serialise through the implementation's own entry point; no encapsulation header in front
  pub fn to_bytes(&self, big_endian: bool) -> Result<Vec<u8>, String> {
    let rid = rep(self.kind, big_endian);
    let res = catch_unwind(AssertUnwindSafe(|| -> Result<Vec<u8>, String> {
      match &self.val {
        Val::P(x) => x.to_pl_cdr_bytes(rid).map(|b| b.to_vec()).map_err(|e| format!("{e:?}")),
        Val::R(x) => x.to_pl_cdr_bytes(rid).map(|b| b.to_vec()).map_err(|e| format!("{e:?}")),
        Val::W(x) => x.to_pl_cdr_bytes(rid).map(|b| b.to_vec()).map_err(|e| format!("{e:?}")),
        Val::T(x) => x.to_pl_cdr_bytes(rid).map(|b| b.to_vec()).map_err(|e| format!("{e:?}")),
        Val::Q(q) => {
          let c = ctx(big_endian);
          let parameters = q.to_parameter_list(c).map_err(|e| format!("{e:?}"))?;
          ParameterList { parameters }.serialize_to_bytes(c).map(|b| b.to_vec()).map_err(|e| format!("{e:?}"))
        }
        Val::M(m) => {
          let b = if big_endian {
            <CDRSerializerAdapter<ParticipantMessageData, BigEndian> as SerializerAdapter<ParticipantMessageData>>::to_bytes(m)
          } else {
            <CDRSerializerAdapter<ParticipantMessageData, LittleEndian> as SerializerAdapter<ParticipantMessageData>>::to_bytes(m)
          };
          b.map(|b| b.to_vec()).map_err(|e| format!("{e:?}"))
        }
      }
    }));
    res.unwrap_or_else(|p| Err(panic_text(p)))
  }

  /// parse through the implementation's own entry point
  pub fn parse(kind: u8, big_endian: bool, bytes: &[u8]) -> Result<V, String> {
    let kind = kind.min(KIND_PMSG);
    let rid = rep(kind, big_endian);
    let res = catch_unwind(AssertUnwindSafe(|| -> Result<Val, String> {
      Ok(match kind {
        KIND_PARTICIPANT => Val::P(SpdpDiscoveredParticipantData::from_pl_cdr_bytes(bytes, rid).map_err(|e| format!("{e:?}"))?),
        KIND_READER => Val::R(DiscoveredReaderData::from_pl_cdr_bytes(bytes, rid).map_err(|e| format!("{e:?}"))?),
        KIND_WRITER => Val::W(DiscoveredWriterData::from_pl_cdr_bytes(bytes, rid).map_err(|e| format!("{e:?}"))?),
        KIND_TOPIC => Val::T(DiscoveredTopicData::from_pl_cdr_bytes(bytes, rid).map_err(|e| format!("{e:?}"))?),
        KIND_QOS => {
          let c = ctx(big_endian);
          let pl = ParameterList::read_from_buffer_with_ctx(c, bytes).map_err(|e| format!("{e:?}"))?;
          let map = pl.to_map();
          Val::Q(QosPolicies::from_parameter_list(c, &map).map_err(|e| format!("{e:?}"))?)
        }
        _ => Val::M(
          <CDRDeserializerAdapter<ParticipantMessageData> as DeserializerAdapter<ParticipantMessageData>>::from_bytes(bytes, rid)
            .map_err(|e| format!("{e:?}"))?,
        ),
      })
    }));
    match res {
      Ok(Ok(val)) => Ok(V { kind, val }),
      Ok(Err(e)) => Err(e),
      Err(p) => Err(panic_text(p)),
    }
  }

  /// PartialEq verdict of the implementation's own types. The reception time
  /// stamps (`updated_time`, `last_updated`) are set locally on parse and are not
  /// part of the wire format: they are taken out of the comparison.
  pub fn same_as(&self, other: &V) -> bool {
    match (&self.val, &other.val) {
      (Val::P(a), Val::P(b)) => {
        let mut b = b.clone();
        b.updated_time = a.updated_time;
        *a == b
      }
      (Val::R(a), Val::R(b)) => a == b,
      (Val::W(a), Val::W(b)) => {
        let mut b = b.clone();
        b.last_updated = a.last_updated;
        *a == b
      }
      (Val::T(a), Val::T(b)) => a.topic_data == b.topic_data,
      (Val::Q(a), Val::Q(b)) => a == b,
      (Val::M(a), Val::M(b)) => a == b,
      _ => false,
    }
  }

  /// every transmitted field, rendered losslessly: (name, value); "-" = absent (None)
  pub fn fields(&self) -> Vec<(String, String)> {
    let mut o: Vec<(String, String)> = vec![];
    match &self.val {
      Val::P(x) => {
        o.push(("protocol_version".into(), format!("{}.{}", x.protocol_version.major, x.protocol_version.minor)));
        o.push(("vendor_id".into(), hexs(&x.vendor_id.vendor_id)));
        o.push(("expects_inline_qos".into(), x.expects_inline_qos.to_string()));
        o.push(("participant_guid".into(), p_guid(&x.participant_guid)));
        o.push(("metatraffic_unicast_locators".into(), p_locs(&x.metatraffic_unicast_locators)));
        o.push(("metatraffic_multicast_locators".into(), p_locs(&x.metatraffic_multicast_locators)));
        o.push(("default_unicast_locators".into(), p_locs(&x.default_unicast_locators)));
        o.push(("default_multicast_locators".into(), p_locs(&x.default_multicast_locators)));
        let mut set = 0u32;
        for i in 0..32 {
          if x.available_builtin_endpoints.contains(1u32 << i) {
            set |= 1 << i;
          }
        }
        o.push(("available_builtin_endpoints".into(), set.to_string()));
        o.push(("lease_duration".into(), p_opt(&x.lease_duration, |d| p_dur(*d))));
        o.push(("manual_liveliness_count".into(), x.manual_liveliness_count.to_string()));
        o.push((
          "builtin_endpoint_qos".into(),
          p_opt(&x.builtin_endpoint_qos, |q| {
            let b = q.write_to_vec_with_ctx(Endianness::LittleEndian).unwrap_or_default();
            if b.len() == 4 {
              u32::from_le_bytes([b[0], b[1], b[2], b[3]]).to_string()
            } else {
              format!("{q:?}")
            }
          }),
        ));
        o.push(("entity_name".into(), p_opt(&x.entity_name, |s| p_str(s))));
      }
      Val::R(x) => {
        o.push(("remote_reader_guid".into(), p_guid(&x.reader_proxy.remote_reader_guid)));
        o.push(("expects_inline_qos".into(), x.reader_proxy.expects_inline_qos.to_string()));
        o.push(("unicast_locator_list".into(), p_locs(&x.reader_proxy.unicast_locator_list)));
        o.push(("multicast_locator_list".into(), p_locs(&x.reader_proxy.multicast_locator_list)));
        let s = &x.subscription_topic_data;
        o.push(("key".into(), p_guid(&s.key())));
        o.push(("participant_key".into(), p_opt(s.participant_key(), p_guid)));
        o.push(("topic_name".into(), p_str(s.topic_name())));
        o.push(("type_name".into(), p_str(s.type_name())));
        qos_fields("qos.", ENDPOINT_SKIP, &s.qos(), &mut o);
        o.push((
          "content_filter".into(),
          p_opt(&x.content_filter, |c| {
            format!(
              "{:?}|{:?}|{:?}|{:?}|{}",
              c.content_filtered_topic_name,
              c.related_topic_name,
              c.filter_class_name,
              c.filter_expression,
              p_strs(&c.expression_parameters)
            )
          }),
        ));
      }
      Val::W(x) => {
        o.push(("remote_writer_guid".into(), p_guid(&x.writer_proxy.remote_writer_guid)));
        o.push(("unicast_locator_list".into(), p_locs(&x.writer_proxy.unicast_locator_list)));
        o.push(("multicast_locator_list".into(), p_locs(&x.writer_proxy.multicast_locator_list)));
        o.push(("data_max_size_serialized".into(), p_opt(&x.writer_proxy.data_max_size_serialized, |v| v.to_string())));
        let p = &x.publication_topic_data;
        o.push(("key".into(), p_guid(&p.key)));
        o.push(("participant_key".into(), p_opt(&p.participant_key, p_guid)));
        o.push(("topic_name".into(), p_str(&p.topic_name)));
        o.push(("type_name".into(), p_str(&p.type_name)));
        qos_fields("qos.", ENDPOINT_SKIP, &p.qos(), &mut o);
        o.push(("service_instance_name".into(), p_opt(&p.service_instance_name, |s| p_str(s))));
        o.push(("related_datareader_key".into(), p_opt(&p.related_datareader_key, p_guid)));
        o.push(("topic_aliases".into(), p_opt(&p.topic_aliases, |v| p_strs(v))));
      }
      Val::T(x) => {
        let t = &x.topic_data;
        o.push(("key".into(), p_opt(&t.key, p_guid)));
        o.push(("name".into(), p_str(&t.name)));
        o.push(("type_name".into(), p_str(&t.type_name)));
        use crate::dds::qos::HasQoSPolicy;
        qos_fields("qos.", TOPIC_SKIP, &t.qos(), &mut o);
      }
      Val::Q(q) => qos_fields("", &[], q, &mut o),
      Val::M(m) => {
        o.push(("guid".into(), hexs(m.guid.as_ref())));
        // the kind's octets are private: derive'd Debug of [u8; 4]
        o.push(("kind".into(), format!("{:?}", m.kind)));
        o.push(("data".into(), hexs(&m.data)));
      }
    }
    o
  }

  /// Debug text of the value (time stamps that are not transmitted left out)
  pub fn debug(&self) -> String {
    let mut s = match &self.val {
      Val::P(x) => {
        let mut y = x.clone();
        y.updated_time = chrono::DateTime::<Utc>::MIN_UTC;
        format!("{y:?}")
      }
      Val::R(x) => format!("{x:?}"),
      Val::W(x) => format!("{:?} {:?}", x.writer_proxy, x.publication_topic_data),
      Val::T(x) => format!("{:?}", x.topic_data),
      Val::Q(x) => format!("{x:?}"),
      Val::M(x) => format!("{x:?}"),
    };
    if s.len() > 4000 {
      let mut cut = 4000;
      while !s.is_char_boundary(cut) {
        cut -= 1;
      }
      s.truncate(cut);
    }
    s
  }

  /// (optional field, present?) for coverage accounting
  pub fn presence(&self) -> Vec<(String, bool)> {
    let mut o: Vec<(String, bool)> = vec![];
    match &self.val {
      Val::P(x) => {
        o.push(("lease_duration".into(), x.lease_duration.is_some()));
        o.push(("builtin_endpoint_qos".into(), x.builtin_endpoint_qos.is_some()));
        o.push(("entity_name".into(), x.entity_name.is_some()));
        o.push(("metatraffic_unicast_locators".into(), !x.metatraffic_unicast_locators.is_empty()));
        o.push(("metatraffic_multicast_locators".into(), !x.metatraffic_multicast_locators.is_empty()));
        o.push(("default_unicast_locators".into(), !x.default_unicast_locators.is_empty()));
        o.push(("default_multicast_locators".into(), !x.default_multicast_locators.is_empty()));
      }
      Val::R(x) => {
        o.push(("participant_key".into(), x.subscription_topic_data.participant_key().is_some()));
        o.push(("content_filter".into(), x.content_filter.is_some()));
        o.push(("unicast_locator_list".into(), !x.reader_proxy.unicast_locator_list.is_empty()));
        o.push(("multicast_locator_list".into(), !x.reader_proxy.multicast_locator_list.is_empty()));
        qos_presence("qos.", ENDPOINT_SKIP, &x.subscription_topic_data.qos(), &mut o);
      }
      Val::W(x) => {
        let p = &x.publication_topic_data;
        o.push(("participant_key".into(), p.participant_key.is_some()));
        o.push(("data_max_size_serialized".into(), x.writer_proxy.data_max_size_serialized.is_some()));
        o.push(("unicast_locator_list".into(), !x.writer_proxy.unicast_locator_list.is_empty()));
        o.push(("multicast_locator_list".into(), !x.writer_proxy.multicast_locator_list.is_empty()));
        o.push(("service_instance_name".into(), p.service_instance_name.is_some()));
        o.push(("related_datareader_key".into(), p.related_datareader_key.is_some()));
        o.push(("topic_aliases".into(), p.topic_aliases.is_some()));
        qos_presence("qos.", ENDPOINT_SKIP, &p.qos(), &mut o);
      }
      Val::T(x) => {
        o.push(("key".into(), x.topic_data.key.is_some()));
        use crate::dds::qos::HasQoSPolicy;
        qos_presence("qos.", TOPIC_SKIP, &x.topic_data.qos(), &mut o);
      }
      Val::Q(q) => qos_presence("", &[], q, &mut o),
      Val::M(m) => {
        o.push(("data".into(), !m.data.is_empty()));
      }
    }
    o
  }
}

// ---------------------------------------------------------------------------
// lease probe: what an absent PID_PARTICIPANT_LEASE_DURATION amounts to
// ---------------------------------------------------------------------------
#[derive(Clone, Debug)]
pub struct LeaseProbe {
  pub parse_error: Option<String>,
  /// plain rendering of the parsed lease_duration ("-" = None)
  pub parsed_lease: String,
  pub accepted_by_db: bool,
  pub waited_s: f64,
  /// the participant proxy was dropped by `participant_cleanup` after `waited_s`
  pub dropped: bool,
  /// lease the DB reports as exceeded, in seconds (Duration ticks / 2^32)
  pub reported_lease_s: Option<f64>,
}

/// Parses `spdp_bytes` (PL_CDR, harness-built), stores the result in a fresh
/// DiscoveryDB exactly as Discovery does (`update_participant`), sleeps
/// `wait_ms`, then runs the DB's own `participant_cleanup` once.
pub fn lease_probe(spdp_bytes: &[u8], big_endian: bool, wait_ms: u64) -> LeaseProbe {
  let mut out = LeaseProbe { parse_error: None, parsed_lease: String::new(), accepted_by_db: false, waited_s: 0.0, dropped: false, reported_lease_s: None };
  let data = match SpdpDiscoveredParticipantData::from_pl_cdr_bytes(spdp_bytes, rep(KIND_PARTICIPANT, big_endian)) {
    Ok(d) => d,
    Err(e) => {
      out.parse_error = Some(format!("{e:?}"));
      return out;
    }
  };
  out.parsed_lease = p_opt(&data.lease_duration, |d| p_dur(*d));
  let (topic_tx, _topic_rx) = mio_extras::channel::sync_channel::<()>(4);
  let (status_tx, _status_rx) = sync_status_channel(16).unwrap();
  let mut me = [0x77u8; 16];
  me[12..16].copy_from_slice(&EntityId::PARTICIPANT.to_slice());
  let mut db = DiscoveryDB::new(GUID::from_bytes(me), topic_tx, status_tx);
  db.update_participant(&data);
  out.accepted_by_db = db.find_participant_proxy(data.participant_guid.prefix).is_some();
  let t0 = Instant::now();
  std::thread::sleep(std::time::Duration::from_millis(wait_ms));
  let lost = db.participant_cleanup();
  out.waited_s = t0.elapsed().as_secs_f64();
  for (prefix, reason) in lost {
    if prefix == data.participant_guid.prefix {
      out.dropped = true;
      if let LostReason::Timeout { lease, .. } = reason {
        out.reported_lease_s = Some(lease.to_ticks() as f64 / 4294967296.0);
      }
    }
  }
  out
}
