// Compiled *inside* the rustdds crate as `crate::verif` when the cargo feature
// `rustdds_verif` is on (hook H2 in /repo/src/lib.rs). Everything here is a
// driver or an observation tap: it exposes a narrow plain-data API to the
// harness binaries in /verif/harness. No oracle lives here.

macro_rules! vmod {
  ($name:ident, $file:literal) => {
    pub mod $name {
      include!(concat!(env!("RUSTDDS_VERIF_DIR"), "/incrate/", $file));
    }
  };
}

vmod!(net, "net.rs");
vmod!(sched, "sched.rs");
vmod!(types, "types.rs");
vmod!(rbench, "rbench.rs");
vmod!(wbench, "wbench.rs");
vmod!(codec, "codec.rs");
vmod!(disc, "disc.rs");
vmod!(ddb, "ddb.rs");
vmod!(schedsc, "schedsc.rs");
vmod!(plcdr, "plcdr.rs");
vmod!(pure, "pure.rs");
vmod!(chanstress, "chanstress.rs");

// drivers that need the DDS Security plugins (only in the `security` build: vcheck-sec)
#[cfg(feature = "security")]
vmod!(sec, "sec.rs");
