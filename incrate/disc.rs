// E-STACK helper: byte builders for SPDP / SEDP payloads of a *fake* remote
// participant (the harness wraps them into RTPS DATA itself and sends them over
// real UDP), and the local participant's well-known ports. The (de)serialisers are
// the library's own: what is under test in C11/C12 is the discovery logic, not the
// codec (that is C15).
use std::net::SocketAddr;

use chrono::Utc;

use crate::{
  discovery::{
    builtin_endpoint::BuiltinEndpointSet,
    sedp_messages::{
      DiscoveredReaderData, DiscoveredWriterData, Endpoint_GUID, PublicationBuiltinTopicData, ReaderProxy,
      SubscriptionBuiltinTopicData, WriterProxy,
    },
    spdp_participant_data::{Participant_GUID, SpdpDiscoveredParticipantData},
  },
  messages::{protocol_version::ProtocolVersion, vendor_id::VendorId},
  network::constant::{spdp_well_known_multicast_port, spdp_well_known_unicast_port, user_traffic_unicast_port},
  serialization::pl_cdr_adapters::PlCdrSerialize,
  structure::{
    guid::{EntityId, GuidPrefix, GUID},
    locator::Locator,
  },
  DomainParticipant, Duration, QosPolicies, RepresentationIdentifier,
};

#[derive(Clone, Copy, Debug)]
pub struct Ports {
  pub meta_unicast: u16,
  pub user_unicast: u16,
  pub meta_multicast: u16,
}

pub fn local_ports(dp: &DomainParticipant) -> Ports {
  Ports {
    meta_unicast: spdp_well_known_unicast_port(dp.domain_id(), dp.participant_id()),
    user_unicast: user_traffic_unicast_port(dp.domain_id(), dp.participant_id()),
    meta_multicast: spdp_well_known_multicast_port(dp.domain_id()),
  }
}

pub fn participant_prefix(dp: &DomainParticipant) -> [u8; 12] {
  use crate::RTPSEntity;
  let mut p = [0u8; 12];
  p.copy_from_slice(dp.guid().prefix.as_ref());
  p
}

fn with_header(le: bool, body: bytes::Bytes) -> Vec<u8> {
  let mut v = vec![0x00, if le { 0x03 } else { 0x02 }, 0, 0];
  v.extend_from_slice(&body);
  v
}
fn rep(le: bool) -> RepresentationIdentifier {
  if le {
    RepresentationIdentifier::PL_CDR_LE
  } else {
    RepresentationIdentifier::PL_CDR_BE
  }
}

/// lease: None = parameter absent; Some(f64::INFINITY) = infinite; else seconds
pub fn spdp_payload(prefix: [u8; 12], lease: Option<f64>, meta_addr: SocketAddr, user_addr: SocketAddr, le: bool) -> Vec<u8> {
  let d = SpdpDiscoveredParticipantData {
    updated_time: Utc::now(),
    protocol_version: ProtocolVersion::THIS_IMPLEMENTATION,
    vendor_id: VendorId::THIS_IMPLEMENTATION,
    expects_inline_qos: false,
    participant_guid: GUID::new(GuidPrefix::new(&prefix), EntityId::PARTICIPANT),
    metatraffic_unicast_locators: vec![Locator::from(meta_addr)],
    metatraffic_multicast_locators: vec![],
    default_unicast_locators: vec![Locator::from(user_addr)],
    default_multicast_locators: vec![],
    available_builtin_endpoints: BuiltinEndpointSet::from_u32(
      BuiltinEndpointSet::PARTICIPANT_ANNOUNCER
        | BuiltinEndpointSet::PARTICIPANT_DETECTOR
        | BuiltinEndpointSet::PUBLICATIONS_ANNOUNCER
        | BuiltinEndpointSet::PUBLICATIONS_DETECTOR
        | BuiltinEndpointSet::SUBSCRIPTIONS_ANNOUNCER
        | BuiltinEndpointSet::SUBSCRIPTIONS_DETECTOR
        | BuiltinEndpointSet::PARTICIPANT_MESSAGE_DATA_WRITER
        | BuiltinEndpointSet::PARTICIPANT_MESSAGE_DATA_READER,
    ),
    lease_duration: lease.map(|s| if s.is_infinite() { Duration::INFINITE } else { Duration::from_frac_seconds(s) }),
    manual_liveliness_count: 0,
    builtin_endpoint_qos: None,
    entity_name: None,
    #[cfg(feature = "security")]
    identity_token: None,
    #[cfg(feature = "security")]
    permissions_token: None,
    #[cfg(feature = "security")]
    property: None,
    #[cfg(feature = "security")]
    security_info: None,
  };
  with_header(le, d.to_pl_cdr_bytes(rep(le)).expect("spdp serialise"))
}

pub fn spdp_key_payload(prefix: [u8; 12], le: bool) -> Vec<u8> {
  let k = Participant_GUID(GUID::new(GuidPrefix::new(&prefix), EntityId::PARTICIPANT));
  with_header(le, k.to_pl_cdr_bytes(rep(le)).expect("key serialise"))
}

pub fn sedp_writer_payload(guid: [u8; 16], topic: &str, type_name: &str, qos: &QosPolicies, user_addr: SocketAddr, le: bool) -> Vec<u8> {
  let g = GUID::from_bytes(guid);
  let pg = GUID::new(g.prefix, EntityId::PARTICIPANT);
  let d = DiscoveredWriterData {
    last_updated: std::time::Instant::now(),
    writer_proxy: WriterProxy::new(g, vec![], vec![Locator::from(user_addr)]),
    publication_topic_data: PublicationBuiltinTopicData::new_with_qos(g, Some(pg), topic.to_string(), type_name.to_string(), qos, None),
  };
  with_header(le, d.to_pl_cdr_bytes(rep(le)).expect("writer data serialise"))
}

pub fn sedp_reader_payload(guid: [u8; 16], topic: &str, type_name: &str, qos: &QosPolicies, user_addr: SocketAddr, le: bool) -> Vec<u8> {
  let g = GUID::from_bytes(guid);
  let pg = GUID::new(g.prefix, EntityId::PARTICIPANT);
  let d = DiscoveredReaderData {
    reader_proxy: ReaderProxy::new(g, false, vec![Locator::from(user_addr)], vec![]),
    subscription_topic_data: SubscriptionBuiltinTopicData::new(g, Some(pg), topic.to_string(), type_name.to_string(), qos, None),
    content_filter: None,
  };
  with_header(le, d.to_pl_cdr_bytes(rep(le)).expect("reader data serialise"))
}

pub fn sedp_key_payload(guid: [u8; 16], le: bool) -> Vec<u8> {
  let k = Endpoint_GUID(GUID::from_bytes(guid));
  with_header(le, k.to_pl_cdr_bytes(rep(le)).expect("key serialise"))
}

pub fn guid_bytes(g: GUID) -> [u8; 16] {
  g.to_bytes()
}

/// C10: the QoS a peer ends up with after it was announced over SEDP: written into DiscoveredWriterData /
/// DiscoveredReaderData, serialised to PL_CDR, parsed back, `qos()` of the result.
pub fn qos_through_sedp(qos: &QosPolicies, as_writer: bool, le: bool) -> Result<QosPolicies, String> {
  use crate::serialization::pl_cdr_adapters::PlCdrDeserialize;
  let mut guid = [0x3Cu8; 16];
  guid[15] = if as_writer { 0x02 } else { 0x07 };
  let addr: SocketAddr = "127.0.0.1:7411".parse().unwrap();
  if as_writer {
    let b = sedp_writer_payload(guid, "t", "T", qos, addr, le);
    DiscoveredWriterData::from_pl_cdr_bytes(&b[4..], rep(le)).map(|d| d.publication_topic_data.qos()).map_err(|e| format!("{e:?}"))
  } else {
    let b = sedp_reader_payload(guid, "t", "T", qos, addr, le);
    DiscoveredReaderData::from_pl_cdr_bytes(&b[4..], rep(le)).map(|d| d.subscription_topic_data.qos()).map_err(|e| format!("{e:?}"))
  }
}
